// crate::rt::thread::verif -- harness-side construction of thread sets and
// lemmas about thread-state transitions (C05/C08: set_unparked, unpark).
#![allow(dead_code, unused_imports)]

use super::*;
use crate::rt::verif::{le, max_raw, vharness, vv, vv_raw};
#[cfg(not(kani))]
use crate::rt::verif::kani_shim as kani;
use crate::rt::MAX_THREADS;

pub(crate) const EXEC_ID: usize = 7;

/// A real `thread::Set` with `n` threads (1..=5), created through the real
/// constructors; thread 0 active.
pub(crate) fn mk_set(n: usize) -> Set {
    // capacity = n: the heap buffer is modelled byte-wise, its size drives the formula size
    let mut set = Set::new(crate::rt::execution::verif::id(EXEC_ID), n);
    let mut i = 1;
    while i < n {
        set.new_thread();
        i += 1;
    }
    set
}

pub(crate) fn tid(i: usize) -> Id {
    Id::new(crate::rt::execution::verif::id(EXEC_ID), i)
}

/// Sets the active thread without going through tracing.
pub(crate) fn activate(set: &mut Set, i: usize) {
    set.active = Some(i);
}

pub(crate) fn deactivate(set: &mut Set) {
    set.active = None;
}

pub(crate) fn active_index(set: &Set) -> Option<usize> {
    set.active
}

pub(crate) fn len(set: &Set) -> usize {
    set.threads.len()
}

pub(crate) fn th(set: &mut Set, i: usize) -> &mut Thread {
    &mut set.threads[i]
}

pub(crate) fn th_ref(set: &Set, i: usize) -> &Thread {
    &set.threads[i]
}

/// Encodes a thread state as a small integer (for comparisons in harnesses):
/// 0 Runnable{unparked:false}, 1 Runnable{unparked:true}, 2 Blocked, 3 Yield, 4 Terminated
pub(crate) fn state_code(s: &State) -> u8 {
    match s {
        State::Runnable { unparked: false } => 0,
        State::Runnable { unparked: true } => 1,
        State::Blocked(..) => 2,
        State::Yield => 3,
        State::Terminated => 4,
    }
}

pub(crate) fn state_from_code(c: u8) -> State {
    match c {
        0 => State::Runnable { unparked: false },
        1 => State::Runnable { unparked: true },
        2 => State::Blocked(crate::rt::Location::disabled()),
        3 => State::Yield,
        _ => State::Terminated,
    }
}

/// Arbitrary clocks for the first `n` threads of `set`.
pub(crate) fn havoc_clocks(set: &mut Set, n: usize) {
    let mut i = 0;
    while i < n {
        let c: [u16; MAX_THREADS] = kani::any();
        let r: [u16; MAX_THREADS] = kani::any();
        let d: [u16; MAX_THREADS] = kani::any();
        set.threads[i].causality = vv(c);
        set.threads[i].released = vv(r);
        set.threads[i].dpor_vv = vv(d);
        i += 1;
    }
}

vharness! {
    /// @prop C05,C08 @tier quick @mode full @funcs Thread::set_unparked,Thread::unpark @bounds all 5 thread states, all clocks
    /// Thread::unpark: the target's clock becomes the join with the unparker's; state: Blocked/Yield -> Runnable without token, Runnable -> token stored, Terminated unchanged.
    fn thread_unpark_transition() {
        let mut set = mk_set(2);
        let code: u8 = kani::any();
        kani::assume(code <= 4);
        let c0: [u16; MAX_THREADS] = kani::any();
        let c1: [u16; MAX_THREADS] = kani::any();
        set.threads[0].causality = vv(c0);
        set.threads[1].causality = vv(c1);
        set.threads[1].state = state_from_code(code);
        // thread 0 (active) unparks thread 1 through the real Set::unpark
        set.unpark(tid(1));
        let after = state_code(&set.threads[1].state);
        let expect = match code {
            0 | 1 => 1,      // runnable: token stored
            2 | 3 => 0,      // blocked / yielded: runnable, no token
            _ => 4,          // terminated: unchanged
        };
        assert!(after == expect);
        assert!(vv_raw(&set.threads[1].causality) == max_raw(&c0, &c1));
        assert!(vv_raw(&set.threads[0].causality) == c0);
        kani::cover!(code == 2, "blocked target");
        kani::cover!(code == 0, "runnable target");
        std::mem::forget(set);
    }
}

vharness! {
    /// @prop C08 @tier quick @mode full @funcs Set::unpark,Thread::set_unparked @bounds all states of the active thread
    /// Self-unpark stores the token and does not touch clocks.
    fn thread_self_unpark() {
        let mut set = mk_set(2);
        let code: u8 = kani::any();
        kani::assume(code <= 1);
        let c0: [u16; MAX_THREADS] = kani::any();
        set.threads[0].causality = vv(c0);
        set.threads[0].state = state_from_code(code);
        set.unpark(tid(0));
        assert!(state_code(&set.threads[0].state) == 1);
        assert!(vv_raw(&set.threads[0].causality) == c0);
        kani::cover!(code == 0, "no token before");
        std::mem::forget(set);
    }
}

vharness! {
    /// @prop C19 @tier quick @mode fast @funcs Set::new,Set::new_thread @must_fail "self.threads.len\(\) < self.max\(\)" @bounds max_threads = 3
    /// creating more threads than max_threads is refused by an assertion exactly at the limit (the first max_threads - 1 spawns succeed).
    #[cfg_attr(kani, kani::unwind(8))]
    fn thread_capacity() {
        let mut set = Set::new(crate::rt::execution::verif::id(EXEC_ID), 3);
        set.new_thread();
        set.new_thread();
        assert!(set.threads.len() == 3);
        set.new_thread();
        assert!(false, "VERIF_MARKER: a thread was created beyond max_threads");
    }
}

vharness! {
    /// @prop C18 @tier quick @mode full @funcs Thread::set_yield @bounds all 5 prior thread states, all clock values, yield counts 0..1000
    /// yield_now bookkeeping: the thread is marked yielded, the version of the yield is recorded (stores first seen at or before it are not offered again) and the yield counter grows -- on every call, also when the thread is still marked yielded from its previous yield.
    fn thread_set_yield_records() {
        let mut set = mk_set(2);
        let code: u8 = kani::any();
        kani::assume(code <= 4);
        let c: [u16; MAX_THREADS] = kani::any();
        let n: usize = kani::any();
        kani::assume(n <= 1000);
        let prev: u16 = kani::any();
        set.threads[1].state = state_from_code(code);
        set.threads[1].causality = vv(c);
        set.threads[1].yield_count = n;
        set.threads[1].last_yield = if kani::any() { Some(prev) } else { None };
        set.threads[1].set_yield();
        assert!(state_code(&set.threads[1].state) == 3);
        assert!(set.threads[1].last_yield == Some(c[1]));
        assert!(set.threads[1].yield_count == n + 1);
        kani::cover!(code == 3 && prev != c[1], "yield while still marked yielded, at a later version");
        std::mem::forget(set);
    }
}

vharness! {
    /// @prop C16 @tier quick @mode fast @funcs Set::clear,Thread::new @bounds 3 threads with symbolic clocks / states / yield records / flags, symbolic SC-fence view and active index; Vec::clear / Vec::truncate stubbed to skip the destructors of the old threads (their thread-local hash maps)
    /// thread::Set::clear (run between iterations) leaves exactly the initial state: one runnable main thread without token, all clocks (causality, released, DPOR) zero, no yield record, no pending operation, the global SC-fence view zero, the new execution id.
    #[cfg_attr(kani, kani::unwind(8))]
    #[cfg_attr(kani, kani::stub(std::vec::Vec::clear, crate::rt::verif::stubs::vec_clear_no_drop))]
    #[cfg_attr(kani, kani::stub(std::vec::Vec::truncate, crate::rt::verif::stubs::vec_truncate_no_drop))]
    fn thread_set_clear_resets() {
        let mut set = mk_set(3);
        havoc_clocks(&mut set, 3);
        let sc: [u16; MAX_THREADS] = kani::any();
        set.seq_cst_causality = vv(sc);
        let mut i = 0;
        while i < 3 {
            let code: u8 = kani::any();
            kani::assume(code <= 4);
            set.threads[i].state = state_from_code(code);
            set.threads[i].yield_count = kani::any();
            set.threads[i].last_yield = Some(kani::any());
            set.threads[i].critical = kani::any();
            i += 1;
        }
        let a: usize = kani::any();
        kani::assume(a < 3);
        set.active = if kani::any() { Some(a) } else { None };
        let new_id = crate::rt::execution::verif::id(EXEC_ID + 1);
        set.clear(new_id);
        assert!(set.threads.len() == 1);
        assert!(set.active == Some(0));
        assert!(set.execution_id == new_id);
        let zero = [0u16; MAX_THREADS];
        assert!(le(&vv_raw(&set.seq_cst_causality), &zero));
        let t = &set.threads[0];
        assert!(state_code(&t.state) == 0);
        assert!(le(&vv_raw(&t.causality), &zero) && le(&vv_raw(&t.released), &zero) && le(&vv_raw(&t.dpor_vv), &zero));
        assert!(t.last_yield.is_none() && t.yield_count == 0 && !t.critical && t.operation.is_none());
        assert!(t.id == Id::new(new_id, 0));
        kani::cover!(!le(&sc, &zero), "SC-fence view was advanced");
        std::mem::forget(set);
    }
}
