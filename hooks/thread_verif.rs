// harnesses for thread (included into loom under cfg(loom_verif))
