// crate::rt::vv::verif -- VersionVec lemmas (C03: "partial order on clocks").
#![allow(dead_code, unused_imports)]

use super::*;
use crate::rt::verif::{le, max_raw, vharness};
#[cfg(not(kani))]
use crate::rt::verif::kani_shim as kani;

pub(crate) fn from_raw(raw: [u16; MAX_THREADS]) -> VersionVec {
    VersionVec { versions: raw }
}

pub(crate) fn raw(v: &VersionVec) -> [u16; MAX_THREADS] {
    v.versions
}

vharness! {
    /// @prop C03,C04 @tier quick @mode full @funcs VersionVec::join @bounds all 2^160 pairs of 5-component u16 clocks
    /// join is the least upper bound: result = component-wise max.
    fn vv_join_is_lub() {
        let a: [u16; MAX_THREADS] = kani::any();
        let b: [u16; MAX_THREADS] = kani::any();
        let mut x = from_raw(a);
        x.join(&from_raw(b));
        let m = max_raw(&a, &b);
        let mut i = 0;
        while i < MAX_THREADS {
            assert!(x.versions[i] == m[i]);
            i += 1;
        }
        kani::cover!(a[0] < b[0] && a[1] > b[1], "incomparable operands");
    }
}

vharness! {
    /// @prop C03,C04 @tier quick @mode full @funcs VersionVec::partial_cmp @bounds all 2^160 pairs of 5-component u16 clocks
    /// partial_cmp agrees with the component-wise order in all four outcomes.
    fn vv_partial_cmp_exact() {
        use std::cmp::Ordering::*;
        let a: [u16; MAX_THREADS] = kani::any();
        let b: [u16; MAX_THREADS] = kani::any();
        let r = from_raw(a).partial_cmp(&from_raw(b));
        let ab = le(&a, &b);
        let ba = le(&b, &a);
        match r {
            Some(Equal) => assert!(ab && ba),
            Some(Less) => assert!(ab && !ba),
            Some(Greater) => assert!(!ab && ba),
            None => assert!(!ab && !ba),
        }
        // derived operators used by loom: `<`, `<=`
        assert!((from_raw(a) <= from_raw(b)) == ab);
        assert!((from_raw(a) < from_raw(b)) == (ab && !ba));
        kani::cover!(r.is_none(), "incomparable");
        kani::cover!(r == Some(Less), "less");
    }
}

vharness! {
    /// @prop C04 @tier quick @mode full @funcs VersionVec::ahead @bounds all 2^160 pairs of 5-component u16 clocks
    /// `a.ahead(b)` is Some(i) iff b is NOT <= a, and then b[i] > a[i].
    fn vv_ahead_exact() {
        let a: [u16; MAX_THREADS] = kani::any();
        let b: [u16; MAX_THREADS] = kani::any();
        match from_raw(a).ahead(&from_raw(b)) {
            None => assert!(le(&b, &a)),
            Some(i) => {
                assert!(i < MAX_THREADS);
                assert!(a[i] < b[i]);
                assert!(!le(&b, &a));
            }
        }
        kani::cover!(!le(&b, &a), "some component ahead");
    }
}

vharness! {
    /// @prop C03 @tier quick @mode full @funcs VersionVec::inc,VersionVec::index @bounds all clocks, all 5 thread ids
    /// inc bumps exactly one component by one.
    fn vv_inc_one_component() {
        let a: [u16; MAX_THREADS] = kani::any();
        let t: usize = kani::any();
        kani::assume(t < MAX_THREADS);
        kani::assume(a[t] < u16::MAX);
        let mut x = from_raw(a);
        let id = crate::rt::thread::Id::new(crate::rt::execution::verif::id(7), t);
        x.inc(id);
        let mut i = 0;
        while i < MAX_THREADS {
            if i == t {
                assert!(x.versions[i] == a[i] + 1);
            } else {
                assert!(x.versions[i] == a[i]);
            }
            i += 1;
        }
        assert!(x[id] == a[t] + 1);
    }
}
