// harnesses for rwlock (included into loom under cfg(loom_verif))
