// crate::rt::rwlock::verif -- C07 (rwlock machine), C01-O4.
#![allow(dead_code, unused_imports)]

use super::*;
use crate::rt::verif::{le, max_raw, vharness, vv, vv_raw};
#[cfg(not(kani))]
use crate::rt::verif::kani_shim as kani;
use crate::rt::MAX_THREADS;

pub(crate) fn dependence(p: usize, v: [u16; MAX_THREADS]) {
    let mut s = State { lock: None, last_access: None, synchronize: Synchronize::new() };
    if kani::any() {
        let q: usize = kani::any();
        s.last_access = Some(Access::new(q, &vv(kani::any())));
    }
    s.set_last_access(p, &vv(v));
    let a = s.last_dependent_access().unwrap();
    assert!(a.path_id() == p && vv_raw(a.version()) == v);
    std::mem::forget(s);
}

// ------------------------------------------------------------ C07: one-step simulation

use crate::rt::execution::verif as ev;
use crate::rt::object::verif as ov;
use crate::rt::scheduler::verif as sched;
use crate::rt::synchronize::verif as sv;
use crate::rt::thread::verif as tv;

type Raw = [u16; MAX_THREADS];

fn eq(a: &Raw, b: &Raw) -> bool {
    le(a, b) && le(b, a)
}

/// lock states of the reference machine: 0 free, 1 write-held by `w`, 2 read-held by the set `readers`
fn mk_lock(mode: u8, w: usize, readers: [bool; 3]) -> Option<Locked> {
    match mode {
        0 => None,
        1 => Some(Locked::Write(tv::tid(w))),
        _ => {
            let mut s: HashSet<thread::Id> = HashSet::new();
            let mut t = 0;
            while t < 3 {
                if readers[t] {
                    s.insert(tv::tid(t));
                }
                t += 1;
            }
            Some(Locked::Read(s))
        }
    }
}

/// World: 3 threads, one rwlock (object 0).  Non-acting threads that do not
/// hold the lock are symbolic: role 0 unrelated runnable, 1 blocked elsewhere,
/// 2 pending read, 3 pending write; pending threads are Blocked iff their
/// request is incompatible with the current lock state (coupling relation).
fn world(acting: usize, mode: u8, w: usize, readers: [bool; 3]) -> (crate::rt::Execution, RwLock, [u8; 3], [u8; 3], Raw) {
    let mut e = ev::mk_exec(3, 1, None);
    tv::activate(&mut e.threads, acting);
    let sync: Raw = kani::any();
    let st = State { lock: mk_lock(mode, w, readers), last_access: None, synchronize: sv::mk(sync) };
    let r = e.objects.insert(st);
    let mut roles = [0u8; 3];
    let mut codes = [0u8; 3];
    let mut t = 0;
    while t < 3 {
        let c: Raw = kani::any();
        tv::th(&mut e.threads, t).causality = vv(c);
        let holds = (mode == 1 && w == t) || (mode == 2 && readers[t]);
        if t != acting && !holds {
            let role: u8 = kani::any();
            kani::assume(role <= 3);
            roles[t] = role;
            let (code, opn) = match role {
                0 => (0, None),
                1 => (2, None),
                2 => (if mode == 1 { 2 } else { 0 }, Some(ov::op(0, crate::rt::object::Action::RwLock(Action::Read)))),
                _ => (if mode != 0 { 2 } else { 0 }, Some(ov::op(0, crate::rt::object::Action::RwLock(Action::Write)))),
            };
            codes[t] = code;
            tv::th(&mut e.threads, t).state = tv::state_from_code(code);
            tv::th(&mut e.threads, t).operation = opn;
        }
        t += 1;
    }
    (e, RwLock { state: r }, roles, codes, sync)
}

fn code_of(e: &crate::rt::Execution, t: usize) -> u8 {
    tv::state_code(&tv::th_ref(&e.threads, t).state)
}

fn clock(e: &crate::rt::Execution, t: usize) -> Raw {
    vv_raw(&tv::th_ref(&e.threads, t).causality)
}

fn sync_of(e: &crate::rt::Execution, l: &RwLock) -> Raw {
    sv::raw(&l.state.get(&e.objects).synchronize)
}

fn read_unlock_case(other_reader: bool) {
    let acting = 1;
    let (mut e, l, roles, codes, sync0) = world(acting, 2, 0, [other_reader, true, false]);
    let cur = clock(&e, acting);
    let c2 = clock(&e, 2);
    sched::enter(&mut e, || l.release_read_lock());
    // hand-over: everything the reader did is released into the lock
    assert!(eq(&sync_of(&e, &l), &max_raw(&sync0, &cur)));
    let st = l.state.get(&e.objects);
    if other_reader {
        match &st.lock {
            Some(Locked::Read(s)) => assert!(s.len() == 1 && s.contains(&tv::tid(0))),
            _ => assert!(false),
        }
        assert!(code_of(&e, 2) == codes[2]);
    } else {
        assert!(st.lock.is_none());
        // pending writers (blocked by the readers) can run again
        if roles[2] >= 2 {
            assert!(code_of(&e, 2) == 0);
        } else {
            assert!(code_of(&e, 2) == codes[2]);
        }
    }
    assert!(eq(&clock(&e, acting), &cur));
    assert!(eq(&clock(&e, 2), &c2));
    assert!(sched::switches() == 0);
    kani::cover!(!le(&cur, &sync0), "the reader publishes something");
    if !other_reader {
        kani::cover!(roles[2] == 3, "last reader wakes a pending writer");
    }
    std::mem::forget(e);
}

vharness! {
    /// @prop C07,C04 @tier experimental @mode fast @cost 3 @timeout 3600 @funcs RwLock::release_read_lock,Synchronize::sync_store @bounds 3 threads; read-held by threads 0 and 1, thread 1 unlocks; thread 2 symbolic (unrelated / blocked elsewhere / pending read / pending write); all clock values
    /// read-unlock while another reader remains: the reader leaves the reader set and still publishes its view into the lock (a later writer must see it); nobody is woken.
    #[cfg_attr(kani, kani::unwind(8))]
    fn rwlock_read_unlock_not_last() { read_unlock_case(true) }
}

vharness! {
    /// @prop C07,C05 @tier experimental @mode fast @cost 3 @timeout 3600 @funcs RwLock::release_read_lock,RwLock::unlock_threads @bounds 3 threads; read-held by thread 1 only; thread 2 symbolic
    /// read-unlock by the last reader: the lock becomes free, the reader's view is published, every thread queued on the lock is runnable again.
    #[cfg_attr(kani, kani::unwind(8))]
    fn rwlock_read_unlock_last() { read_unlock_case(false) }
}
