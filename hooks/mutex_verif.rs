// crate::rt::mutex::verif -- C07 (lock machine), C01-O4.
#![allow(dead_code, unused_imports)]

use super::*;
use crate::rt::verif::{le, max_raw, vharness, vv, vv_raw};
#[cfg(not(kani))]
use crate::rt::verif::kani_shim as kani;
use crate::rt::MAX_THREADS;

type Raw = [u16; MAX_THREADS];

vharness! {
    /// @prop C01 @tier quick @mode full @funcs mutex::State::last_dependent_access,mutex::State::set_last_access,rwlock::State::last_dependent_access,condvar::State::last_dependent_access,notify::State::last_dependent_access @bounds arbitrary earlier record, all clock values; one harness covers the four object kinds with a single access record
    /// Mutex, RwLock, Condvar and Notify operations are all mutually dependent: the last dependent access is always the most recent access, whatever the operation.
    fn opaque_objects_dependence() {
        let p: usize = kani::any();
        kani::assume(p < 1000);
        let v: Raw = kani::any();
        let mut m = State { seq_cst: false, lock: None, last_access: None, synchronize: Synchronize::new() };
        if kani::any() {
            let q: usize = kani::any();
            m.last_access = Some(Access::new(q, &vv(kani::any())));
        }
        m.set_last_access(p, &vv(v));
        let a = m.last_dependent_access().unwrap();
        assert!(a.path_id() == p && vv_raw(a.version()) == v);
        crate::rt::rwlock::verif::dependence(p, v);
        crate::rt::condvar::verif::dependence(p, v);
        crate::rt::notify::verif::dependence(p, v);
        kani::cover!(p == 3, "reached");
    }
}

pub(crate) fn mk_unlocked() -> State {
    State { seq_cst: true, lock: None, last_access: None, synchronize: Synchronize::new() }
}
