// harnesses for mutex (included into loom under cfg(loom_verif))
