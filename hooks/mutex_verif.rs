// crate::rt::mutex::verif -- C07 (lock machine), C01-O4.
#![allow(dead_code, unused_imports)]

use super::*;
use crate::rt::verif::{le, max_raw, vharness, vv, vv_raw};
#[cfg(not(kani))]
use crate::rt::verif::kani_shim as kani;
use crate::rt::MAX_THREADS;

type Raw = [u16; MAX_THREADS];

vharness! {
    /// @prop C01 @tier quick @mode full @funcs mutex::State::last_dependent_access,mutex::State::set_last_access,rwlock::State::last_dependent_access,condvar::State::last_dependent_access,notify::State::last_dependent_access @bounds arbitrary earlier record, all clock values; one harness covers the four object kinds with a single access record
    /// Mutex, RwLock, Condvar and Notify operations are all mutually dependent: the last dependent access is always the most recent access, whatever the operation.
    fn opaque_objects_dependence() {
        let p: usize = kani::any();
        kani::assume(p < 1000);
        let v: Raw = kani::any();
        let mut m = State { seq_cst: false, lock: None, last_access: None, synchronize: Synchronize::new() };
        if kani::any() {
            let q: usize = kani::any();
            m.last_access = Some(Access::new(q, &vv(kani::any())));
        }
        m.set_last_access(p, &vv(v));
        let a = m.last_dependent_access().unwrap();
        assert!(a.path_id() == p && vv_raw(a.version()) == v);
        crate::rt::rwlock::verif::dependence(p, v);
        crate::rt::condvar::verif::dependence(p, v);
        crate::rt::notify::verif::dependence(p, v);
        kani::cover!(p == 3, "reached");
    }
}

pub(crate) fn mk_unlocked() -> State {
    State { seq_cst: true, lock: None, last_access: None, synchronize: Synchronize::new() }
}

// ------------------------------------------------------------ C07: one-step simulation

use crate::rt::execution::verif as ev;
use crate::rt::object::verif as ov;
use crate::rt::scheduler::verif as sched;
use crate::rt::thread::verif as tv;

const NONE: u8 = 255;

fn eq(a: &Raw, b: &Raw) -> bool {
    le(a, b) && le(b, a)
}

/// World: 3 threads, one mutex (object 0) whose owner is `owner`; `acting`
/// runs.  Every other thread is either waiting for this mutex (pending
/// operation on it; Blocked iff the mutex is held -- loom's coupling with the
/// reference "waiter" set) or unrelated (Runnable or Blocked elsewhere).
/// Returns (execution, mutex handle, waiting[], state codes[]).
fn world(acting: usize, owner: u8) -> (crate::rt::Execution, Mutex, [bool; 3], [u8; 3]) {
    let mut e = ev::mk_exec(3, 1, None);
    tv::activate(&mut e.threads, acting);
    let sync: Raw = kani::any();
    let st = State {
        seq_cst: kani::any(),
        lock: if owner == NONE { None } else { Some(tv::tid(owner as usize)) },
        last_access: None,
        synchronize: crate::rt::synchronize::verif::mk(sync),
    };
    let r = e.objects.insert(st);
    let mut waiting = [false; 3];
    let mut codes = [0u8; 3];
    let mut t = 0;
    while t < 3 {
        let c: Raw = kani::any();
        tv::th(&mut e.threads, t).causality = vv(c);
        if t != acting {
            let w: bool = kani::any();
            waiting[t] = w && owner != t as u8;
            if waiting[t] {
                tv::th(&mut e.threads, t).operation = Some(ov::op(0, crate::rt::object::Action::Opaque));
                codes[t] = if owner == NONE { 0 } else { 2 };
            } else {
                let blocked_elsewhere: bool = kani::any();
                codes[t] = if blocked_elsewhere { 2 } else { 0 };
            }
            tv::th(&mut e.threads, t).state = tv::state_from_code(codes[t]);
        }
        t += 1;
    }
    (e, Mutex { state: r }, waiting, codes)
}

fn sync_of(e: &crate::rt::Execution, m: &Mutex) -> Raw {
    crate::rt::synchronize::verif::raw(&m.state.get(&e.objects).synchronize)
}

fn owner_of(e: &crate::rt::Execution, m: &Mutex) -> u8 {
    match m.state.get(&e.objects).lock {
        None => NONE,
        Some(id) => id.as_usize() as u8,
    }
}

fn clocks(e: &crate::rt::Execution) -> [Raw; 3] {
    [
        vv_raw(&tv::th_ref(&e.threads, 0).causality),
        vv_raw(&tv::th_ref(&e.threads, 1).causality),
        vv_raw(&tv::th_ref(&e.threads, 2).causality),
    ]
}

/// lock() / try_lock() on a mutex that may be free or held by another thread
/// (the acting thread stays runnable unless lock() has to block).
fn acquire_case(acting: usize, try_only: bool) {
    let owner: u8 = kani::any();
    kani::assume(owner == NONE || ((owner as usize) < 3 && (try_only || owner as usize != acting)));
    // lock(): the free case runs the whole real function; the held case is `lock_blocks_case`
    if !try_only {
        kani::assume(owner == NONE);
    }
    let (mut e, m, waiting, codes) = world(acting, owner);
    let before = clocks(&e);
    let sync0 = sync_of(&e, &m);
    let got = sched::enter(&mut e, || {
        if try_only {
            m.try_acquire_lock(Location::disabled())
        } else {
            m.acquire_lock(Location::disabled());
            true
        }
    });
    // reference lock machine: succeeds exactly when the mutex is free
    assert!(got == (owner == NONE));
    assert!(sched::switches() == 0);
    assert!(tv::active_index(&e.threads) == Some(acting));
    let after = clocks(&e);
    if got {
        assert!(owner_of(&e, &m) == acting as u8);
        // acquire: everything released into the mutex happens-before the new owner
        assert!(eq(&after[acting], &max_raw(&before[acting], &sync0)));
    } else {
        assert!(owner_of(&e, &m) == owner);
        assert!(eq(&after[acting], &before[acting]));
    }
    assert!(eq(&sync_of(&e, &m), &sync0));
    let mut t = 0;
    while t < 3 {
        if t != acting {
            let now = tv::state_code(&tv::th_ref(&e.threads, t).state);
            if got && waiting[t] {
                // exclusion: everybody else queued on this mutex is disabled now
                assert!(now == 2);
            } else {
                assert!(now == codes[t]);
            }
            assert!(eq(&after[t], &before[t]));
        }
        t += 1;
    }
    kani::cover!(got && waiting[(acting + 1) % 3] && waiting[(acting + 2) % 3], "acquired with two other threads queued");
    if try_only {
        kani::cover!(!got && owner as usize == acting, "try_lock by the owner itself fails");
        kani::cover!(!got && owner as usize != acting, "try_lock while another thread holds the mutex");
    }
    std::mem::forget(e);
}

vharness! {
    /// @prop C07,C05 @tier quick @mode fast @cost 2 @funcs Mutex::acquire_lock,Mutex::post_acquire,Mutex::is_locked,Ref::branch_acquire,rt::branch,Execution::schedule,Synchronize::sync_load @bounds 3 threads, 1 mutex (free), the other two threads symbolic (queued on the mutex / unrelated runnable / blocked elsewhere), all clock values, thread 1 acting
    /// lock() on a free mutex returns without a context switch, makes the caller the owner, joins the mutex's release view into the caller, and disables exactly the other threads queued on this mutex.
    #[cfg_attr(kani, kani::unwind(8))]
    fn mutex_lock_free_t1() { acquire_case(1, false) }
}

vharness! {
    /// @prop C07 @tier quick @mode fast @cost 2 @funcs Mutex::try_acquire_lock,Mutex::post_acquire,Ref::branch_opaque @bounds 3 threads, 1 mutex free or held by any thread (including the caller), thread 0 acting
    /// try_lock() succeeds exactly when the mutex is free; on failure nothing changes (owner, blocked set, clocks).
    #[cfg_attr(kani, kani::unwind(8))]
    fn mutex_try_lock_t0() { acquire_case(0, true) }
}

vharness! {
    /// @prop C07,C05 @tier thorough @mode fast @cost 2 @funcs Ref::branch_acquire,Mutex::is_locked,rt::branch,Execution::schedule @bounds 3 threads, mutex held by thread 0, thread 2 calls lock(); third thread symbolic
    /// lock() on a held mutex blocks: the caller becomes Blocked with a pending operation on the mutex and loom asks for a context switch to a thread that can run (first half of the real acquire_lock, run through the real branch_acquire/schedule).
    #[cfg_attr(kani, kani::unwind(8))]
    fn mutex_lock_blocks_t2() {
        let acting = 2;
        let (mut e, m, _waiting, codes) = world(acting, 0);
        // the owner can run, so this is no deadlock
        tv::th(&mut e.threads, 0).state = tv::state_from_code(0);
        let locked = sched::enter(&mut e, || {
            let l = m.is_locked();
            m.state.branch_acquire(l, Location::disabled());
            l
        });
        assert!(locked);
        assert!(tv::state_code(&tv::th_ref(&e.threads, acting).state) == 2);
        let op = tv::th_ref(&e.threads, acting).operation;
        assert!(op.is_some() && ov::op_index(&op.unwrap()) == 0);
        assert!(sched::switches() == 1);
        let next = tv::active_index(&e.threads);
        assert!(next == Some(0) || (next == Some(1) && codes[1] == 0));
        assert!(owner_of(&e, &m) == 0);
        kani::cover!(next == Some(0), "owner runs next");
        std::mem::forget(e);
    }
}

vharness! {
    /// @prop C07,C05,C01 @tier quick @mode fast @cost 2 @funcs Mutex::release_lock,Synchronize::sync_store,Thread::set_runnable @bounds 3 threads, mutex held by the acting thread 0, the other two threads symbolic (queued on the mutex and therefore Blocked / unrelated), all clock values
    /// unlock releases the mutex, publishes the owner's view into it (release), makes EVERY thread queued on this mutex runnable again and touches nobody else.
    #[cfg_attr(kani, kani::unwind(8))]
    fn mutex_unlock_t0() {
        let acting = 0;
        let (mut e, m, waiting, codes) = world(acting, acting as u8);
        let before = clocks(&e);
        let sync0 = sync_of(&e, &m);
        sched::enter(&mut e, || m.release_lock());
        assert!(owner_of(&e, &m) == NONE);
        assert!(eq(&sync_of(&e, &m), &max_raw(&sync0, &before[acting])));
        let after = clocks(&e);
        let mut t = 0;
        while t < 3 {
            assert!(eq(&after[t], &before[t]));
            if t != acting {
                let now = tv::state_code(&tv::th_ref(&e.threads, t).state);
                if waiting[t] {
                    assert!(now == 0);
                } else {
                    assert!(now == codes[t]);
                }
            }
            t += 1;
        }
        assert!(sched::switches() == 0);
        kani::cover!(waiting[1] && waiting[2], "two waiters woken");
        kani::cover!(!waiting[1] && codes[1] == 2, "a thread blocked elsewhere stays blocked");
        std::mem::forget(e);
    }
}
