// crate::rt::object::verif -- C10: the end-of-iteration leak scan.
#![allow(dead_code, unused_imports)]

use super::*;
use crate::rt::verif::vharness;
#[cfg(not(kani))]
use crate::rt::verif::kani_shim as kani;

/// A store holding [Alloc, Arc, Mutex, Channel] entries with symbolic
/// leak-relevant fields; returns (store, reference verdict "something leaked").
fn any_store() -> (Store, bool) {
    let mut st: Store = Store::with_capacity(4);
    let dropped: bool = kani::any();
    let cnt: usize = kani::any();
    let msgs: usize = kani::any();
    st.insert(rt::alloc::verif::mk(dropped));
    st.insert(rt::arc::verif::mk(cnt));
    st.insert(rt::mutex::verif::mk_unlocked());
    st.insert(rt::mpsc::verif::mk(msgs));
    let leaked = !dropped || cnt != 0 || msgs != 0;
    (st, leaked)
}

vharness! {
    /// @prop C10 @tier quick @mode fast @funcs object::Store::check_for_leaks,alloc::State::check_for_leaks,arc::State::check_for_leaks,mpsc::State::check_for_leaks @bounds store of 4 entries [Alloc,Arc,Mutex,Channel], all values of is_dropped / ref_cnt / msg_cnt
    /// no false leak report: when every allocation is dropped, every Arc count is zero and every channel is empty, the scan returns.
    fn leak_scan_no_false_report() {
        let (st, leaked) = any_store();
        kani::assume(!leaked);
        st.check_for_leaks();
        kani::cover!(true, "scan returned");
        std::mem::forget(st);
    }
}

vharness! {
    /// @prop C10 @tier quick @mode fast @funcs object::Store::check_for_leaks @must_fail "leaked" @bounds store of 4 entries [Alloc,Arc,Mutex,Channel], all values of is_dropped / ref_cnt / msg_cnt
    /// no missed leak: when some allocation is not dropped, some Arc count is positive or some channel holds messages, the scan never returns normally.
    fn leak_scan_no_missed_report() {
        let (st, leaked) = any_store();
        kani::assume(leaked);
        st.check_for_leaks();
        assert!(false, "VERIF_MARKER: check_for_leaks returned although an object is leaked");
    }
}

/// A pending operation on the object at `index` (harness-side constructor).
pub(crate) fn op(index: usize, action: Action) -> Operation {
    Operation { obj: Ref::from_usize(index), action, location: Location::disabled() }
}

pub(crate) fn op_index(o: &Operation) -> usize {
    o.obj.index
}

pub(crate) fn ref_index<T>(r: Ref<T>) -> usize {
    r.index
}

vharness! {
    /// @prop C16 @tier quick @mode fast @funcs object::Store::clear,object::Store::len @bounds store holding [Alloc, Arc, Mutex, Channel] entries with symbolic fields; Vec::clear stubbed to skip element destructors
    /// the object store handed to the next iteration is empty: no object (lock state, reference count, channel content, allocation record) of one iteration is visible in the next.
    #[cfg_attr(kani, kani::unwind(8))]
    #[cfg_attr(kani, kani::stub(std::vec::Vec::clear, crate::rt::verif::stubs::vec_clear_no_drop))]
    fn object_store_clear_empties() {
        let (mut st, leaked) = any_store();
        assert!(st.len() == 4);
        st.clear();
        assert!(st.len() == 0);
        // a leak scan of the cleared store reports nothing, whatever was in it
        st.check_for_leaks();
        kani::cover!(leaked, "the previous iteration left leaked objects behind");
        std::mem::forget(st);
    }
}
