// harnesses for object (included into loom under cfg(loom_verif))
