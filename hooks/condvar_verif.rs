// crate::rt::condvar::verif -- C08 (condvar machine), C01-O4.
#![allow(dead_code, unused_imports)]

use super::*;
use crate::rt::verif::{le, max_raw, vharness, vv, vv_raw};
#[cfg(not(kani))]
use crate::rt::verif::kani_shim as kani;
use crate::rt::MAX_THREADS;

pub(crate) fn dependence(p: usize, v: [u16; MAX_THREADS]) {
    let mut s = State { last_access: None, waiters: VecDeque::new() };
    if kani::any() {
        let q: usize = kani::any();
        s.last_access = Some(Access::new(q, &vv(kani::any())));
    }
    s.set_last_access(p, &vv(v));
    let a = s.last_dependent_access().unwrap();
    assert!(a.path_id() == p && vv_raw(a.version()) == v);
    std::mem::forget(s);
}
