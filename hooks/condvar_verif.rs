// harnesses for condvar (included into loom under cfg(loom_verif))
