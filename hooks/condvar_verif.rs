// crate::rt::condvar::verif -- C08 (condvar machine), C01-O4.
#![allow(dead_code, unused_imports)]

use super::*;
use crate::rt::verif::{le, max_raw, vharness, vv, vv_raw};
#[cfg(not(kani))]
use crate::rt::verif::kani_shim as kani;
use crate::rt::MAX_THREADS;

pub(crate) fn dependence(p: usize, v: [u16; MAX_THREADS]) {
    let mut s = State { last_access: None, waiters: VecDeque::new() };
    if kani::any() {
        let q: usize = kani::any();
        s.last_access = Some(Access::new(q, &vv(kani::any())));
    }
    s.set_last_access(p, &vv(v));
    let a = s.last_dependent_access().unwrap();
    assert!(a.path_id() == p && vv_raw(a.version()) == v);
    std::mem::forget(s);
}

// ------------------------------------------------------------ C08: notify_one / notify_all

use crate::rt::execution::verif as ev;
use crate::rt::scheduler::verif as sched;
use crate::rt::thread::verif as tv;

type Raw = [u16; MAX_THREADS];

fn eq(a: &Raw, b: &Raw) -> bool {
    le(a, b) && le(b, a)
}

/// World: 3 threads, one condvar (object 0); thread 0 notifies; `q` of the
/// other threads (1, then 2) are queued in wait() in FIFO order: they have
/// released the mutex and are parked (Blocked, no pending operation).
fn world(q: usize) -> (crate::rt::Execution, Condvar) {
    world_n(q, 3)
}

fn world_n(q: usize, n: usize) -> (crate::rt::Execution, Condvar) {
    let mut e = ev::mk_exec(n, 1, None);
    tv::activate(&mut e.threads, 0);
    let mut st = State { last_access: None, waiters: VecDeque::new() };
    let mut t = 1;
    while t <= q {
        st.waiters.push_back(tv::tid(t));
        tv::th(&mut e.threads, t).state = tv::state_from_code(2);
        t += 1;
    }
    let r = e.objects.insert(st);
    let mut t = 0;
    while t < n {
        let c: Raw = kani::any();
        tv::th(&mut e.threads, t).causality = vv(c);
        t += 1;
    }
    (e, Condvar { state: r })
}

fn code_of(e: &crate::rt::Execution, t: usize) -> u8 {
    tv::state_code(&tv::th_ref(&e.threads, t).state)
}

fn clock(e: &crate::rt::Execution, t: usize) -> Raw {
    vv_raw(&tv::th_ref(&e.threads, t).causality)
}

fn notify_case(q: usize, all: bool) {
    let (mut e, cv) = world(q);
    let c = [clock(&e, 0), clock(&e, 1), clock(&e, 2)];
    sched::enter(&mut e, || {
        if all {
            cv.notify_all(Location::disabled())
        } else {
            cv.notify_one(Location::disabled())
        }
    });
    let woken = if all { q } else if q >= 1 { 1 } else { 0 };
    // FIFO: the longest waiter first; notify_one releases exactly one, notify_all every one
    let mut t = 1;
    while t < 3 {
        if t <= woken {
            assert!(code_of(&e, t) == 0);
            // the notifier's prior writes happen-before the woken thread's continuation
            assert!(eq(&clock(&e, t), &max_raw(&c[t], &c[0])));
        } else {
            let was = if t <= q { 2 } else { 0 };
            assert!(code_of(&e, t) == was);
            assert!(eq(&clock(&e, t), &c[t]));
        }
        t += 1;
    }
    let st = cv.state.get(&e.objects);
    assert!(st.waiters.len() == q - woken);
    if q == 2 && !all {
        assert!(st.waiters[0] == tv::tid(2));
    }
    assert!(eq(&clock(&e, 0), &c[0]));
    assert!(sched::switches() == 0);
    kani::cover!(!le(&c[0], &c[1]), "the notifier knows something thread 1 does not");
    std::mem::forget(e);
}

vharness! {
    /// @prop C08,C05 @tier quick @mode fast @cost 2 @funcs Condvar::notify_one,Set::unpark,Thread::unpark @bounds 3 threads, 2 queued waiters (threads 1 then 2), all clock values
    /// notify_one wakes exactly the longest-waiting thread, which inherits the notifier's view; the other waiter stays parked and queued.
    #[cfg_attr(kani, kani::unwind(8))]
    fn condvar_notify_one_of_two() { notify_case(2, false) }
}

vharness! {
    /// @prop C08,C05 @tier thorough @mode fast @cost 2 @funcs Condvar::notify_all,Set::unpark @bounds 3 threads, 2 queued waiters, all clock values
    /// notify_all wakes every queued waiter and empties the queue.
    #[cfg_attr(kani, kani::unwind(8))]
    fn condvar_notify_all_two() { notify_case(2, true) }
}

vharness! {
    /// @prop C08 @tier thorough @mode fast @cost 2 @funcs Condvar::notify_one @bounds 3 threads, no waiter
    /// notify_one without waiters wakes nobody and stores nothing (a later wait still blocks).
    #[cfg_attr(kani, kani::unwind(8))]
    fn condvar_notify_one_none() { notify_case(0, false) }
}

vharness! {
    /// @prop C08 @tier thorough @mode fast @cost 3 @timeout 3600 @funcs Condvar::notify_one,Set::unpark @bounds 4 threads, 3 queued waiters (threads 1, 2, 3 in that order), two consecutive notify_one calls
    /// FIFO with three waiters: two notify_one calls wake the two longest-waiting threads in order and leave the newest waiter queued.
    #[cfg_attr(kani, kani::unwind(8))]
    fn condvar_notify_one_twice_of_three() {
        let (mut e, cv) = world_n(3, 4);
        sched::enter(&mut e, || cv.notify_one(Location::disabled()));
        assert!(code_of(&e, 1) == 0 && code_of(&e, 2) == 2 && code_of(&e, 3) == 2);
        // second notification: same call again (the path needs room for its decision)
        crate::rt::path::verif::rewind(&mut e.path);
        sched::enter(&mut e, || cv.notify_one(Location::disabled()));
        assert!(code_of(&e, 1) == 0 && code_of(&e, 2) == 0 && code_of(&e, 3) == 2);
        let st = cv.state.get(&e.objects);
        assert!(st.waiters.len() == 1 && st.waiters[0] == tv::tid(3));
        kani::cover!(true, "reached");
        std::mem::forget(e);
    }
}
