// crate::rt::scheduler::verif -- lets a harness be the scheduler.
//
// `enter` installs an Execution in loom's scoped thread-local exactly as
// `Scheduler::tick` does, so the real `rt::execution`, `rt::branch`,
// `rt::synchronize` entry points run unchanged.  While inside `enter`, the
// hook at the top of `Scheduler::switch()` records the request for a context
// switch instead of running into `generator`'s assembly.
#![allow(dead_code)]

use super::*;
use std::cell::Cell;

thread_local! {
    static ARMED: Cell<bool> = Cell::new(false);
    static SWITCHES: Cell<usize> = Cell::new(0);
    static INTERFERE: Cell<Option<fn(&mut Execution)>> = Cell::new(None);
}

/// What the rest of the program does while the acting thread is switched out:
/// run at the context switch, with the execution accessible.  The harness uses
/// it to model "another thread touched the object, then we were scheduled
/// again" for operations that are pre-empted at their scheduling point.
pub(crate) fn set_interference(f: Option<fn(&mut Execution)>) {
    INTERFERE.with(|c| c.set(f));
}

/// Called first thing by `Scheduler::switch()` under cfg(loom_verif).
/// Returns false (=> the real switch runs) outside a harness.
pub(crate) fn on_switch() -> bool {
    if ARMED.with(|a| a.get()) {
        SWITCHES.with(|s| s.set(s.get() + 1));
        if let Some(f) = INTERFERE.with(|c| c.get()) {
            Scheduler::with_execution(f);
        }
        true
    } else {
        false
    }
}

/// Number of context switches loom asked for since the last `enter`.
pub(crate) fn switches() -> usize {
    SWITCHES.with(|s| s.get())
}

pub(crate) fn reset_switches() {
    SWITCHES.with(|s| s.set(0));
}

/// Runs `f` with `execution` installed as the current loom execution.
pub(crate) fn enter<R>(execution: &mut Execution, f: impl FnOnce() -> R) -> R {
    let mut queued_spawn = VecDeque::new();
    let state = RefCell::new(State {
        execution,
        queued_spawn: &mut queued_spawn,
    });
    ARMED.with(|a| a.set(true));
    SWITCHES.with(|s| s.set(0));
    let r = STATE.set(unsafe { transmute_lt(&state) }, f);
    ARMED.with(|a| a.set(false));
    r
}
