// crate::rt::arc::verif -- C11 (reference count, ordering, dependence
// classes), C01-O4 (dependence table of Arc operations), C10 (count).
#![allow(dead_code, unused_imports)]

use super::*;
use crate::rt::verif::{le, max_raw, vharness, vv, vv_raw};
#[cfg(not(kani))]
use crate::rt::verif::kani_shim as kani;
use crate::rt::MAX_THREADS;

type Raw = [u16; MAX_THREADS];

fn act(c: u8) -> Action {
    match c {
        0 => Action::RefInc,
        1 => Action::RefDec,
        _ => Action::Inspect,
    }
}

fn any_access(max_path: usize) -> Option<Access> {
    let present: bool = kani::any();
    if present {
        let p: usize = kani::any();
        kani::assume(p < max_path);
        let v: Raw = kani::any();
        Some(Access::new(p, &vv(v)))
    } else {
        None
    }
}

fn same(a: Option<&Access>, p: Option<(usize, Raw)>) -> bool {
    match (a, p) {
        (None, None) => true,
        (Some(a), Some((pid, v))) => a.path_id() == pid && vv_raw(a.version()) == v,
        _ => false,
    }
}

fn view(a: Option<&Access>) -> Option<(usize, Raw)> {
    a.map(|a| (a.path_id(), vv_raw(a.version())))
}

/// Two Arc operations are dependent iff their results can depend on their
/// order: an inspection (strong_count, get_mut, try_unwrap) against any change
/// of the count, and two decrements against each other (who drops the value).
fn ref_dependent(a: u8, b: u8) -> bool {
    match (a, b) {
        (2, 0) | (0, 2) => true, // inspect / clone
        (2, 1) | (1, 2) => true, // inspect / drop
        (1, 1) => true,          // drop / drop
        _ => false,
    }
}

vharness! {
    /// @prop C11,C01 @tier quick @mode full @funcs arc::State::last_dependent_access,arc::State::set_last_access,Access::set_or_create @bounds all 3x3 pairs of Arc actions, arbitrary earlier access records (path ids below the new one), reference count 1..6, all clock values
    /// dependence table of Arc operations: after recording an access `a`, the last dependent access reported for a following `b` is that access iff a and b do not commute (inspect/clone, inspect/drop, drop/drop); otherwise the answer is what it was before.
    fn arc_dependence_table() {
        let p: usize = kani::any();
        kani::assume(p >= 1 && p < 1000);
        let last_mod: u8 = kani::any();
        kani::assume(last_mod <= 2);
        let cnt: usize = kani::any();
        kani::assume(cnt >= 1 && cnt <= 6);
        let mut st = State {
            ref_cnt: cnt,
            allocated: Location::disabled(),
            synchronize: Synchronize::new(),
            last_ref_inc: any_access(p),
            last_ref_dec: any_access(p),
            last_ref_inspect: any_access(p),
            last_ref_modification: match last_mod {
                0 => Some(RefModify::RefInc),
                1 => Some(RefModify::RefDec),
                _ => None,
            },
        };
        // bookkeeping invariant: the "last modification" tag names a recorded access
        if last_mod == 0 {
            kani::assume(st.last_ref_inc.is_some());
        }
        if last_mod == 1 {
            kani::assume(st.last_ref_dec.is_some());
        }
        let a: u8 = kani::any();
        let b: u8 = kani::any();
        kani::assume(a <= 2 && b <= 2);
        let v: Raw = kani::any();
        let before = view(st.last_dependent_access(act(b)));
        st.set_last_access(act(a), p, &vv(v));
        let after = st.last_dependent_access(act(b));
        if ref_dependent(a, b) {
            assert!(same(after, Some((p, v))));
        } else {
            assert!(same(after, before));
        }
        kani::cover!(a == 2 && b == 1, "inspection followed by a drop");
        kani::cover!(a == 1 && b == 1 && cnt == 4, "drop followed by a drop with several handles alive");
        kani::cover!(a == 0 && b == 1 && before.is_some(), "clone followed by a drop: independent, older drop still reported");
    }
}

pub(crate) fn mk(ref_cnt: usize) -> State {
    State {
        ref_cnt,
        allocated: Location::disabled(),
        synchronize: Synchronize::new(),
        last_ref_inc: None,
        last_ref_dec: None,
        last_ref_inspect: None,
        last_ref_modification: None,
    }
}

pub(crate) fn ref_cnt(s: &State) -> usize {
    s.ref_cnt
}

// ------------------------------------------------------------ C11 / C10: one-step simulation of rt::Arc

use crate::rt::execution::verif as ev;
use crate::rt::scheduler::verif as sched;
use crate::rt::synchronize::verif as sv;
use crate::rt::thread::verif as tv;

fn eq(a: &Raw, b: &Raw) -> bool {
    le(a, b) && le(b, a)
}

/// World: 2 threads, one Arc object (object 0) with a symbolic count 1..=3 and
/// a symbolic release view; `acting` runs.
fn world(acting: usize) -> (crate::rt::Execution, Arc, usize, Raw) {
    let mut e = ev::mk_exec(2, 1, None);
    tv::activate(&mut e.threads, acting);
    let n: usize = kani::any();
    kani::assume(n >= 1 && n <= 3);
    let sync: Raw = kani::any();
    let mut st = mk(n);
    st.synchronize = sv::mk(sync);
    let r = e.objects.insert(st);
    let mut t = 0;
    while t < 2 {
        let c: Raw = kani::any();
        tv::th(&mut e.threads, t).causality = vv(c);
        t += 1;
    }
    (e, Arc { state: r }, n, sync)
}

fn clock(e: &crate::rt::Execution, t: usize) -> Raw {
    vv_raw(&tv::th_ref(&e.threads, t).causality)
}

/// After the real operation ran as the first scheduling point of the path
/// (path id 0), is it reported as the last dependent access of a following
/// action of class `c`?
fn reported_for(e: &crate::rt::Execution, a: &Arc, c: u8) -> bool {
    match a.state.get(&e.objects).last_dependent_access(act(c)) {
        Some(acc) => acc.path_id() == 0,
        None => false,
    }
}

vharness! {
    /// @prop C11,C10 @tier thorough @mode fast @cost 2 @funcs Arc::ref_inc,Arc::branch,Ref::branch_action,Execution::schedule,arc::State::set_last_access @bounds 2 threads, count 1..3, all clock values, thread 1 acting
    /// clone: the count grows by one, no view is transferred; the clone is a dependent access for a following inspection and for nothing else.
    #[cfg_attr(kani, kani::unwind(8))]
    fn arc_clone_t1() {
        let acting = 1;
        let (mut e, a, n, sync) = world(acting);
        let c = [clock(&e, 0), clock(&e, 1)];
        sched::enter(&mut e, || a.ref_inc(Location::disabled()));
        assert!(ref_cnt(a.state.get(&e.objects)) == n + 1);
        assert!(eq(&clock(&e, 0), &c[0]) && eq(&clock(&e, 1), &c[1]));
        assert!(eq(&sv::raw(&a.state.get(&e.objects).synchronize), &sync));
        assert!(reported_for(&e, &a, 2));
        assert!(!reported_for(&e, &a, 0) && !reported_for(&e, &a, 1));
        assert!(sched::switches() == 0);
        kani::cover!(n == 3, "count 3 -> 4");
        std::mem::forget(e);
    }
}

vharness! {
    /// @prop C11,C10 @tier quick @mode fast @cost 2 @funcs Arc::ref_dec,Synchronize::sync_store,Synchronize::sync_load @bounds 2 threads, count 1..3, all clock values, thread 0 acting
    /// drop of a handle: the count shrinks by one; `true` is returned exactly by the decrement that reaches zero; every drop releases its view into the Arc and the final drop acquires all of them (earlier drops happen-before the destruction); a drop is a dependent access for following drops and inspections.
    #[cfg_attr(kani, kani::unwind(8))]
    fn arc_drop_t0() {
        let acting = 0;
        let (mut e, a, n, sync) = world(acting);
        let c = [clock(&e, 0), clock(&e, 1)];
        let last = sched::enter(&mut e, || a.ref_dec(Location::disabled()));
        assert!(ref_cnt(a.state.get(&e.objects)) == n - 1);
        assert!(last == (n == 1));
        let rel = max_raw(&sync, &c[acting]);
        assert!(eq(&sv::raw(&a.state.get(&e.objects).synchronize), &rel));
        if last {
            assert!(eq(&clock(&e, acting), &rel));
        } else {
            assert!(eq(&clock(&e, acting), &c[acting]));
        }
        assert!(eq(&clock(&e, 1), &c[1]));
        assert!(reported_for(&e, &a, 1) && reported_for(&e, &a, 2));
        assert!(!reported_for(&e, &a, 0));
        kani::cover!(last && !le(&sync, &c[acting]), "final drop acquires an earlier drop's view");
        kani::cover!(!last, "non-final drop");
        std::mem::forget(e);
    }
}

vharness! {
    /// @prop C11 @tier quick @mode fast @cost 2 @funcs Arc::get_mut,Synchronize::sync_load @bounds 2 threads, count 1..3, all clock values, thread 1 acting
    /// get_mut / try_unwrap check: succeeds exactly when the count is 1, acquires the views released by earlier drops when it succeeds (and never more than that), leaves the count alone, and is a dependent access for a following drop.
    #[cfg_attr(kani, kani::unwind(8))]
    fn arc_get_mut_t1() {
        let acting = 1;
        let (mut e, a, n, sync) = world(acting);
        let c = [clock(&e, 0), clock(&e, 1)];
        let unique = sched::enter(&mut e, || a.get_mut(Location::disabled()));
        assert!(unique == (n == 1));
        assert!(ref_cnt(a.state.get(&e.objects)) == n);
        let full = max_raw(&sync, &c[acting]);
        if unique {
            assert!(eq(&clock(&e, acting), &full));
        } else {
            assert!(le(&c[acting], &clock(&e, acting)) && le(&clock(&e, acting), &full));
        }
        assert!(eq(&clock(&e, 0), &c[0]));
        assert!(eq(&sv::raw(&a.state.get(&e.objects).synchronize), &sync));
        // a following drop by another thread must be explored in both orders
        assert!(reported_for(&e, &a, 1));
        kani::cover!(unique && !le(&sync, &c[acting]), "unique owner acquires earlier drops");
        kani::cover!(!unique, "not unique");
        std::mem::forget(e);
    }
}

vharness! {
    /// @prop C11 @tier thorough @mode fast @cost 2 @funcs Arc::strong_count,Synchronize::sync_load @bounds 2 threads, count 1..3, all clock values, thread 0 acting
    /// strong_count returns the modelled count, leaves it alone, and is a dependent access for following clones and drops (both orders get explored).
    #[cfg_attr(kani, kani::unwind(8))]
    fn arc_strong_count_t0() {
        let acting = 0;
        let (mut e, a, n, sync) = world(acting);
        let c = [clock(&e, 0), clock(&e, 1)];
        let got = sched::enter(&mut e, || a.strong_count());
        assert!(got == n);
        assert!(ref_cnt(a.state.get(&e.objects)) == n);
        let full = max_raw(&sync, &c[acting]);
        assert!(le(&c[acting], &clock(&e, acting)) && le(&clock(&e, acting), &full));
        assert!(eq(&clock(&e, 1), &c[1]));
        assert!(reported_for(&e, &a, 0) && reported_for(&e, &a, 1));
        kani::cover!(n == 2, "count 2");
        std::mem::forget(e);
    }
}

// ---- operations pre-empted at their scheduling point (the count may change
// ---- under them before they take effect)

fn other_thread_drops_a_handle(e: &mut crate::rt::Execution) {
    let r: crate::rt::object::Ref<State> = crate::rt::object::Ref::from_usize(0).downcast(&e.objects).unwrap();
    r.get_mut(&mut e.objects).ref_cnt -= 1;
    tv::activate(&mut e.threads, 1);
}

fn other_thread_clones(e: &mut crate::rt::Execution) {
    let r: crate::rt::object::Ref<State> = crate::rt::object::Ref::from_usize(0).downcast(&e.objects).unwrap();
    r.get_mut(&mut e.objects).ref_cnt += 1;
    tv::activate(&mut e.threads, 1);
}

vharness! {
    /// @prop C10,C11 @tier quick @mode fast @cost 2 @funcs Arc::ref_inc,Arc::branch,Execution::schedule,Path::branch_thread @bounds 2 threads, count 2..3; the cloning thread 1 is pre-empted at the scheduling point of clone(), thread 0 drops a handle meanwhile, then thread 1 continues
    /// clone is atomic with respect to the count: a drop by another thread that is scheduled between the clone's scheduling point and its effect is not lost (count = count at resumption + 1).
    #[cfg_attr(kani, kani::unwind(8))]
    fn arc_clone_preempted_t1() {
        let (mut e, a, n, _sync) = world(1);
        kani::assume(n >= 2);
        crate::rt::path::verif::seed_preempt(&mut e.path, 0, 2);
        sched::set_interference(Some(other_thread_drops_a_handle));
        sched::enter(&mut e, || a.ref_inc(Location::disabled()));
        sched::set_interference(None);
        assert!(sched::switches() == 1);
        assert!(ref_cnt(a.state.get(&e.objects)) == n);
        kani::cover!(n == 3, "3 -> 2 by the other thread, -> 3 by the clone");
        std::mem::forget(e);
    }
}

vharness! {
    /// @prop C10,C11 @tier thorough @mode fast @cost 2 @funcs Arc::ref_dec @bounds 2 threads, count 1..3; the dropping thread 1 is pre-empted at its scheduling point, thread 0 clones meanwhile
    /// drop is atomic with respect to the count: it reports "last handle" from the count at the time it takes effect, not from the count when it was first scheduled.
    #[cfg_attr(kani, kani::unwind(8))]
    fn arc_drop_preempted_t1() {
        let (mut e, a, n, _sync) = world(1);
        crate::rt::path::verif::seed_preempt(&mut e.path, 0, 2);
        sched::set_interference(Some(other_thread_clones));
        let last = sched::enter(&mut e, || a.ref_dec(Location::disabled()));
        sched::set_interference(None);
        assert!(sched::switches() == 1);
        assert!(!last);
        assert!(ref_cnt(a.state.get(&e.objects)) == n);
        kani::cover!(n == 1, "would have been the last handle without the concurrent clone");
        std::mem::forget(e);
    }
}
