// harnesses for arc (included into loom under cfg(loom_verif))
