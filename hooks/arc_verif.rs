// crate::rt::arc::verif -- C11 (reference count, ordering, dependence
// classes), C01-O4 (dependence table of Arc operations), C10 (count).
#![allow(dead_code, unused_imports)]

use super::*;
use crate::rt::verif::{le, max_raw, vharness, vv, vv_raw};
#[cfg(not(kani))]
use crate::rt::verif::kani_shim as kani;
use crate::rt::MAX_THREADS;

type Raw = [u16; MAX_THREADS];

fn act(c: u8) -> Action {
    match c {
        0 => Action::RefInc,
        1 => Action::RefDec,
        _ => Action::Inspect,
    }
}

fn any_access(max_path: usize) -> Option<Access> {
    let present: bool = kani::any();
    if present {
        let p: usize = kani::any();
        kani::assume(p < max_path);
        let v: Raw = kani::any();
        Some(Access::new(p, &vv(v)))
    } else {
        None
    }
}

fn same(a: Option<&Access>, p: Option<(usize, Raw)>) -> bool {
    match (a, p) {
        (None, None) => true,
        (Some(a), Some((pid, v))) => a.path_id() == pid && vv_raw(a.version()) == v,
        _ => false,
    }
}

fn view(a: Option<&Access>) -> Option<(usize, Raw)> {
    a.map(|a| (a.path_id(), vv_raw(a.version())))
}

/// Two Arc operations are dependent iff their results can depend on their
/// order: an inspection (strong_count, get_mut, try_unwrap) against any change
/// of the count, and two decrements against each other (who drops the value).
fn ref_dependent(a: u8, b: u8) -> bool {
    match (a, b) {
        (2, 0) | (0, 2) => true, // inspect / clone
        (2, 1) | (1, 2) => true, // inspect / drop
        (1, 1) => true,          // drop / drop
        _ => false,
    }
}

vharness! {
    /// @prop C11,C01 @tier quick @mode full @funcs arc::State::last_dependent_access,arc::State::set_last_access,Access::set_or_create @bounds all 3x3 pairs of Arc actions, arbitrary earlier access records (path ids below the new one), all clock values
    /// dependence table of Arc operations: after recording an access `a`, the last dependent access reported for a following `b` is that access iff a and b do not commute (inspect/clone, inspect/drop, drop/drop); otherwise the answer is what it was before.
    fn arc_dependence_table() {
        let p: usize = kani::any();
        kani::assume(p >= 1 && p < 1000);
        let last_mod: u8 = kani::any();
        kani::assume(last_mod <= 2);
        let mut st = State {
            ref_cnt: 2,
            allocated: Location::disabled(),
            synchronize: Synchronize::new(),
            last_ref_inc: any_access(p),
            last_ref_dec: any_access(p),
            last_ref_inspect: any_access(p),
            last_ref_modification: match last_mod {
                0 => Some(RefModify::RefInc),
                1 => Some(RefModify::RefDec),
                _ => None,
            },
        };
        // bookkeeping invariant: the "last modification" tag names a recorded access
        if last_mod == 0 {
            kani::assume(st.last_ref_inc.is_some());
        }
        if last_mod == 1 {
            kani::assume(st.last_ref_dec.is_some());
        }
        let a: u8 = kani::any();
        let b: u8 = kani::any();
        kani::assume(a <= 2 && b <= 2);
        let v: Raw = kani::any();
        let before = view(st.last_dependent_access(act(b)));
        st.set_last_access(act(a), p, &vv(v));
        let after = st.last_dependent_access(act(b));
        if ref_dependent(a, b) {
            assert!(same(after, Some((p, v))));
        } else {
            assert!(same(after, before));
        }
        kani::cover!(a == 2 && b == 1, "inspection followed by a drop");
        kani::cover!(a == 0 && b == 1 && before.is_some(), "clone followed by a drop: independent, older drop still reported");
    }
}

pub(crate) fn mk(ref_cnt: usize) -> State {
    State {
        ref_cnt,
        allocated: Location::disabled(),
        synchronize: Synchronize::new(),
        last_ref_inc: None,
        last_ref_dec: None,
        last_ref_inspect: None,
        last_ref_modification: None,
    }
}

pub(crate) fn ref_cnt(s: &State) -> usize {
    s.ref_cnt
}
