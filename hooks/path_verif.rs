// harnesses for path (included into loom under cfg(loom_verif))
