// crate::rt::path::verif -- C14 (DFS step, no resurrection, replay fidelity),
// C15 (preemption accounting), C19 (exploring flag, capacity), C01-O2/O3.
#![allow(dead_code, unused_imports)]

use super::*;
use crate::rt::verif::vharness;
#[cfg(not(kani))]
use crate::rt::verif::kani_shim as kani;

const NONE: u8 = 255;
const EXEC: usize = 7;

fn eid() -> execution::Id {
    crate::rt::execution::verif::id(EXEC)
}

fn tid(i: usize) -> thread::Id {
    thread::Id::new(eid(), i)
}

// Thread codes: 0 Disabled, 1 Skip, 2 Yield, 3 Pending, 4 Active, 5 Visited
fn t_code(t: Thread) -> u8 {
    match t {
        Thread::Disabled => 0,
        Thread::Skip => 1,
        Thread::Yield => 2,
        Thread::Pending => 3,
        Thread::Active => 4,
        Thread::Visited => 5,
    }
}

fn t_from(c: u8) -> Thread {
    match c {
        0 => Thread::Disabled,
        1 => Thread::Skip,
        2 => Thread::Yield,
        3 => Thread::Pending,
        4 => Thread::Active,
        _ => Thread::Visited,
    }
}

/// Harness-side copy of one decision-stack entry.
#[derive(Clone, Copy, PartialEq)]
struct Snap {
    kind: u8, // 0 schedule, 1 load, 2 spurious
    exploring: bool,
    threads: [u8; MAX_THREADS],
    preemptions: u8,
    initial_active: u8,
    prev: u8,
    lpos: u8,
    llen: u8,
    lvals: [u8; MAX_ATOMIC_HISTORY],
    spur: bool,
}

const BLANK: Snap = Snap {
    kind: 0,
    exploring: false,
    threads: [0; MAX_THREADS],
    preemptions: 0,
    initial_active: NONE,
    prev: NONE,
    lpos: 0,
    llen: 0,
    lvals: [0; MAX_ATOMIC_HISTORY],
    spur: false,
};

fn snap(path: &Path, i: usize) -> Snap {
    let r = object::Ref::from_usize(i);
    let mut s = BLANK;
    if let Some(sr) = r.downcast::<Schedule>(&path.branches) {
        let sc = sr.get(&path.branches);
        s.kind = 0;
        s.exploring = sc.exploring;
        let mut k = 0;
        while k < MAX_THREADS {
            s.threads[k] = t_code(sc.threads[k]);
            k += 1;
        }
        s.preemptions = sc.preemptions;
        s.initial_active = match sc.initial_active {
            Some(v) => v,
            None => NONE,
        };
        s.prev = NONE;
        // locate prev by position: the previous schedule entry it refers to
        if let Some(p) = sc.prev {
            let mut j = 0;
            while j < i {
                if let Some(c) = object::Ref::from_usize(j).downcast::<Schedule>(&path.branches) {
                    if c.ref_eq(p) {
                        s.prev = j as u8;
                    }
                }
                j += 1;
            }
        }
    } else if let Some(lr) = r.downcast::<Load>(&path.branches) {
        let l = lr.get(&path.branches);
        s.kind = 1;
        s.exploring = l.exploring;
        s.lpos = l.pos;
        s.llen = l.len;
        s.lvals = l.values;
    } else if let Some(pr) = r.downcast::<Spurious>(&path.branches) {
        let p = pr.get(&path.branches);
        s.kind = 2;
        s.exploring = p.exploring;
        s.spur = p.spur;
    }
    s
}

fn active_of(s: &Snap) -> u8 {
    let mut k = 0;
    let mut r = NONE;
    while k < MAX_THREADS {
        if s.threads[k] == 4 && r == NONE {
            r = k as u8;
        }
        k += 1;
    }
    r
}

/// `arr[idx]` without a symbolic array index (CBMC 6.11 returned values that
/// do not reproduce natively for symbolic indices into arrays of structs that
/// contain arrays; every harness therefore selects by a concrete-index loop).
fn pick<const D: usize>(arr: &[Snap; D], idx: u8) -> Snap {
    let mut r = BLANK;
    let mut i = 0;
    while i < D {
        if i as u8 == idx {
            r = arr[i];
        }
        i += 1;
    }
    r
}

fn mark<const D: usize>(arr: &mut [bool; D], idx: u8) {
    let mut i = 0;
    while i < D {
        if i as u8 == idx {
            arr[i] = true;
        }
        i += 1;
    }
}

/// Number of threads whose state is symbolic in a symbolic schedule entry.
const NT: usize = 3;

/// Pushes a symbolic entry of the given kind, satisfying the stack's
/// representation invariant: a schedule has at most one Active thread, its
/// `prev` is the nearest schedule below it; a load has 1 <= len <= 7 and
/// pos < len.
fn push_any(path: &mut Path, kind: u8) {
    let exploring: bool = kani::any();
    match kind {
        0 => {
            let prev = path.last_schedule();
            let mut threads = [Thread::Disabled; MAX_THREADS];
            let mut actives = 0;
            let mut k = 0;
            while k < NT {
                let c: u8 = kani::any();
                kani::assume(c <= 5);
                if c == 4 {
                    actives += 1;
                }
                threads[k] = t_from(c);
                k += 1;
            }
            kani::assume(actives <= 1);
            let ia: u8 = kani::any();
            kani::assume(ia == NONE || (ia as usize) < NT);
            let pre: u8 = kani::any();
            kani::assume(pre <= 3);
            path.branches.insert(Schedule {
                preemptions: pre,
                initial_active: if ia == NONE { None } else { Some(ia) },
                threads,
                prev,
                exploring,
            });
        }
        1 => {
            let len: u8 = kani::any();
            kani::assume(len >= 1 && len as usize <= MAX_ATOMIC_HISTORY);
            let pos: u8 = kani::any();
            kani::assume(pos < len);
            let mut values = [0u8; MAX_ATOMIC_HISTORY];
            values[0] = kani::any();
            values[1] = kani::any();
            values[2] = kani::any();
            kani::assume(values[0] < 7 && values[1] < 7 && values[2] < 7);
            path.branches.insert(Load { values, pos, len, exploring });
        }
        _ => {
            let spur: bool = kani::any();
            path.branches.insert(Spurious { spur, exploring });
        }
    }
}

fn has_alternative(s: &Snap) -> bool {
    if !s.exploring {
        return false;
    }
    match s.kind {
        0 => {
            let mut k = 0;
            let mut r = false;
            while k < MAX_THREADS {
                if s.threads[k] == 3 {
                    r = true;
                }
                k += 1;
            }
            r
        }
        1 => s.lpos + 1 < s.llen,
        _ => !s.spur,
    }
}

/// C14 / C01-O3 / C19: one DFS step from an arbitrary decision stack of the
/// given shape.
fn step_case<const D: usize>(kinds: [u8; D]) {
    let exploring_on_start: bool = kani::any();
    let mut path = Path::new(D + 1, None, exploring_on_start);
    path.exploring = kani::any();
    path.skipping = kani::any();
    let mut old = [BLANK; D];
    let mut i = 0;
    while i < D {
        push_any(&mut path, kinds[i]);
        i += 1;
    }
    path.pos = D; // the iteration that just finished traversed the whole stack
    let mut i = 0;
    while i < D {
        old[i] = snap(&path, i);
        i += 1;
    }

    let more = path.step();

    // deepest entry that is exploring and still has an unexplored alternative
    let mut j = NONE;
    let mut i = 0;
    while i < D {
        if has_alternative(&old[i]) {
            j = i as u8;
        }
        i += 1;
    }
    // (a) there is a next iteration iff such an entry exists
    assert!(more == (j != NONE));
    // (c) the cursor and the exploration flags are reset
    assert!(path.pos == 0);
    assert!(path.exploring == exploring_on_start);
    assert!(!path.skipping);
    if more {
        // (b) the stack is cut directly above j, untouched below j
        assert!(path.branches.len() == j as usize + 1);
        let mut i = 0;
        while i < D {
            if (i as u8) < j {
                assert!(snap(&path, i) == old[i]);
            }
            if i as u8 == j {
                let new = snap(&path, i);
                let was_e = old[i];
                assert!(new.kind == was_e.kind && new.exploring);
                if was_e.kind == 0 {
                    // the previous choice is retired for good, the lowest pending
                    // thread is taken next, nobody else changes
                    let was = active_of(&was_e);
                    let mut first_pending = NONE;
                    let mut k = 0;
                    while k < MAX_THREADS {
                        if was_e.threads[k] == 3 && first_pending == NONE {
                            first_pending = k as u8;
                        }
                        k += 1;
                    }
                    let mut k = 0;
                    while k < MAX_THREADS {
                        let e = if k as u8 == was {
                            5
                        } else if k as u8 == first_pending {
                            4
                        } else {
                            was_e.threads[k]
                        };
                        assert!(new.threads[k] == e);
                        k += 1;
                    }
                    assert!(new.preemptions == was_e.preemptions);
                    assert!(new.initial_active == was_e.initial_active);
                    assert!(new.prev == was_e.prev);
                } else if was_e.kind == 1 {
                    assert!(new.lpos == was_e.lpos + 1);
                    assert!(new.llen == was_e.llen);
                    let mut k = 0;
                    while k < MAX_ATOMIC_HISTORY {
                        assert!(new.lvals[k] == was_e.lvals[k]);
                        k += 1;
                    }
                } else {
                    assert!(!was_e.spur && new.spur);
                }
            }
            i += 1;
        }
    }
    kani::cover!(more && j == 0, "advance at the bottom after popping the exhausted entries above");
    kani::cover!(more && j as usize == D - 1, "advance at the top");
    kani::cover!(!more, "exploration finished");
    kani::cover!(more && (j as usize) < D - 1 && !old[D - 1].exploring && (old[D - 1].kind != 2 || !old[D - 1].spur), "a non-exploring entry is popped without being advanced");
    std::mem::forget(path);
}

vharness! {
    /// @prop C14,C01,C19,C16 @tier quick @mode fast @cost 2 @funcs Path::step,Store::truncate,Ref::downcast @bounds decision stack of depth 2, kinds [schedule,schedule], 3 symbolic threads per schedule (all 6 states), symbolic exploring flags
    /// Path::step returns true iff some exploring entry has an unexplored alternative; it cuts the stack above the deepest such entry, leaves everything below untouched, retires the previous choice (Visited) and activates the lowest pending thread: strict depth-first advance, no revisits.
    #[cfg_attr(kani, kani::unwind(8))]
    fn path_step_ss() { step_case([0, 0]) }
}

vharness! {
    /// @prop C14,C01,C19 @tier quick @mode fast @cost 2 @funcs Path::step @bounds depth 2, kinds [load,spurious], load length 1..7
    /// DFS step: load entries advance to the next candidate, spurious entries flip once; exhausted/non-exploring entries are popped.
    #[cfg_attr(kani, kani::unwind(8))]
    fn path_step_lp() { step_case([1, 2]) }
}

vharness! {
    /// @prop C14,C01,C19 @tier quick @mode fast @cost 2 @funcs Path::step @bounds depth 2, kinds [schedule,load]
    /// DFS step, load above a schedule.
    #[cfg_attr(kani, kani::unwind(8))]
    fn path_step_sl() { step_case([0, 1]) }
}

vharness! {
    /// @prop C14,C19 @tier thorough @mode fast @cost 2 @funcs Path::step @bounds depth 2, kinds [spurious,schedule]
    /// DFS step, schedule above a spurious entry.
    #[cfg_attr(kani, kani::unwind(8))]
    fn path_step_ps() { step_case([2, 0]) }
}

vharness! {
    /// @prop C14,C01,C19 @tier thorough @mode fast @cost 4 @timeout 7200 @funcs Path::step @bounds depth 3, kinds [schedule,load,schedule]
    /// DFS step over three entries (pop two, advance the third).
    #[cfg_attr(kani, kani::unwind(8))]
    fn path_step_sls() { step_case([0, 1, 0]) }
}

/// C14 "no resurrection" / C01-O2 / C19 / C15: one backtrack request on an
/// arbitrary stack of the given shape.
fn backtrack_case<const D: usize>(kinds: [u8; D], bounded: bool, point: usize) {
    let bound: Option<u8> = if bounded {
        let b: u8 = kani::any();
        kani::assume(b <= 3);
        Some(b)
    } else {
        None
    };
    let mut path = Path::new(D + 1, bound, true);
    let mut i = 0;
    while i < D {
        push_any(&mut path, kinds[i]);
        i += 1;
    }
    // loom's own internal invariant (asserted in Schedule::backtrack)
    if let Some(b) = bound {
        let mut i = 0;
        while i < D {
            let s = snap(&path, i);
            if s.kind == 0 {
                kani::assume(s.preemptions <= b);
            }
            i += 1;
        }
    }
    let mut old = [BLANK; D];
    let mut i = 0;
    while i < D {
        old[i] = snap(&path, i);
        i += 1;
    }
    let t: usize = kani::any();
    kani::assume(t < NT);

    path.backtrack(point, tid(t));

    // reference: the request lands on the nearest exploring schedule at or
    // below `point`
    let mut j = NONE;
    let mut i = 0;
    while i < D {
        if i <= point && old[i].kind == 0 && old[i].exploring {
            j = i as u8;
        }
        i += 1;
    }
    // marks that a schedule entry receives: the requested thread if it is
    // enabled there, otherwise every thread; Skip -> Pending only; nothing when
    // the entry already used up the preemption budget
    let mut expect = old;
    let mut marked = [false; D];
    if j != NONE {
        mark(&mut marked, j);
        if bounded {
            // conservative extra point: walking down the chain of previous
            // schedules, the first exploring one where the running thread
            // changed (or the very first schedule)
            let mut curr = pick(&old, j).prev;
            let mut done = curr == NONE;
            let mut guard = 0;
            while !done && guard < D {
                let c = pick(&old, curr);
                let p = c.prev;
                if p != NONE {
                    if active_of(&c) != active_of(&pick(&old, p)) && c.exploring {
                        mark(&mut marked, curr);
                        done = true;
                    } else {
                        curr = p;
                    }
                } else {
                    if c.exploring {
                        mark(&mut marked, curr);
                    }
                    done = true;
                }
                guard += 1;
            }
        }
    }
    let mut i = 0;
    while i < D {
        if marked[i] {
            let at_budget = match bound {
                Some(b) => old[i].preemptions == b,
                None => false,
            };
            if !at_budget {
                let mut at_t = 0;
                let mut k = 0;
                while k < MAX_THREADS {
                    if k == t {
                        at_t = old[i].threads[k];
                    }
                    k += 1;
                }
                if at_t != 0 {
                    let mut k = 0;
                    while k < MAX_THREADS {
                        if k == t && at_t == 1 {
                            expect[i].threads[k] = 3;
                        }
                        k += 1;
                    }
                } else {
                    let mut k = 0;
                    while k < MAX_THREADS {
                        if old[i].threads[k] == 1 {
                            expect[i].threads[k] = 3;
                        }
                        k += 1;
                    }
                }
            }
        }
        i += 1;
    }
    assert!(path.branches.len() == D);
    let mut i = 0;
    while i < D {
        let now = snap(&path, i);
        assert!(now == expect[i]);
        // no resurrection, whatever the reference says: a thread state only
        // ever changes from Skip to Pending, and only in exploring schedules
        let mut k = 0;
        while k < MAX_THREADS {
            if now.threads[k] != old[i].threads[k] {
                assert!(old[i].threads[k] == 1 && now.threads[k] == 3 && old[i].exploring && i <= point);
            }
            k += 1;
        }
        i += 1;
    }
    kani::cover!(j != NONE && (j as usize) < point, "request falls through to a lower schedule");
    kani::cover!(j != NONE && pick(&old, j).threads[0] == 0 && t == 0, "requested thread disabled there: everyone is marked");
    kani::cover!(j == NONE, "no exploring schedule at or below the point: request dropped");
    let _ = point;
    if bounded {
        kani::cover!(j != NONE && pick(&old, j).preemptions == bound.unwrap(), "budget used up: nothing marked at j");
        kani::cover!(marked[0] && j as usize == D - 1 && D > 1, "conservative point on a lower schedule");
    }
    std::mem::forget(path);
}

vharness! {
    /// @prop C14,C01,C19 @tier quick @mode fast @cost 2 @funcs Path::backtrack,Schedule::backtrack,Thread::explore @bounds depth 2, kinds [schedule,schedule], no preemption bound, request aimed at the top entry, symbolic thread
    /// a backtrack request marks (Skip->Pending) only at the nearest exploring schedule at or below the point: the requested thread if enabled there, else all; Visited/Active/Disabled/Yield entries never change (no resurrection), non-exploring schedules are never marked.
    #[cfg_attr(kani, kani::unwind(8))]
    fn path_backtrack_ss() { backtrack_case([0, 0], false, 1) }
}

vharness! {
    /// @prop C14,C01,C19 @tier quick @mode fast @cost 2 @funcs Path::backtrack,Schedule::backtrack @bounds depth 2, kinds [schedule,load], no preemption bound
    /// a backtrack request aimed at a load entry falls through to the schedule below.
    #[cfg_attr(kani, kani::unwind(8))]
    fn path_backtrack_sl() { backtrack_case([0, 1], false, 1) }
}

vharness! {
    /// @prop C15,C14 @tier quick @mode fast @cost 2 @funcs Path::backtrack,Schedule::backtrack,Schedule::active_thread_index @bounds depth 2, kinds [schedule,schedule], preemption bound 0..3 symbolic
    /// with a preemption bound: nothing is marked on a schedule that already used its budget; the conservative extra backtrack point lands on the first schedule.
    #[cfg_attr(kani, kani::unwind(8))]
    fn path_backtrack_bounded_ss() { backtrack_case([0, 0], true, 1) }
}

vharness! {
    /// @prop C15,C14 @tier thorough @mode fast @cost 4 @timeout 7200 @funcs Path::backtrack,Schedule::backtrack @bounds depth 3, kinds [schedule,schedule,schedule], preemption bound 0..3
    /// bounded backtrack over three schedules: the conservative point is the nearest lower exploring schedule where the running thread changed.
    #[cfg_attr(kani, kani::unwind(8))]
    fn path_backtrack_bounded_sss() { backtrack_case([0, 0, 0], true, 2) }
}

// ------------------------------------------------------------ C19: exploring flag, capacity

fn simple_seed() -> [Thread; 3] {
    [Thread::Active, Thread::Skip, Thread::Disabled]
}

fn create(path: &mut Path, kind: u8) {
    match kind {
        0 => {
            path.branch_thread(eid(), simple_seed().into_iter());
        }
        1 => {
            path.push_load(&[0, 1]);
            path.branch_load();
        }
        _ => {
            path.branch_spurious();
        }
    }
}

/// Symbolic control calls (none / explore / stop_exploring / skip_branch)
/// before each of three branch points of the given kinds.
fn flags_case(kinds: [u8; 3]) {
    let on_start: bool = kani::any();
    let mut path = Path::new(3, None, on_start);
    // reference: the two documented flags
    let mut exploring = on_start;
    let mut skipping = false;
    let mut i = 0;
    while i < 3 {
        let ctl: u8 = kani::any();
        kani::assume(ctl <= 3);
        match ctl {
            1 => {
                // explore(): only meaningful inside a stop_exploring region
                kani::assume(skipping || !exploring);
                path.explore_state();
                if !skipping {
                    exploring = true;
                }
            }
            2 => {
                kani::assume(skipping || exploring);
                path.critical();
                if !skipping {
                    exploring = false;
                }
            }
            3 => {
                path.skip_branch();
                exploring = false;
                skipping = true;
            }
            _ => {}
        }
        create(&mut path, kinds[i]);
        // every decision records whether alternatives may be explored for it
        assert!(snap(&path, i).exploring == exploring);
        assert!(path.pos == i + 1);
        if ctl == 3 {
            kani::cover!(i == 0, "skip_branch before the first decision");
        }
        i += 1;
    }
    assert!(path.branches.len() == 3);
    kani::cover!(skipping && on_start, "skip_branch called while exploring");
    kani::cover!(!skipping && exploring && !on_start, "explore() switched exploration on");
    std::mem::forget(path);
}

vharness! {
    /// @prop C19 @tier quick @mode fast @cost 2 @funcs Path::explore_state,Path::critical,Path::skip_branch,Path::branch_thread,Path::push_load,Path::branch_load,Path::branch_spurious @bounds 3 decisions of kinds [schedule,load,spurious] at capacity 3, a symbolic control call (none/explore/stop_exploring/skip_branch) before each
    /// every decision of every kind records the exploration flag current at its creation; after skip_branch nothing is exploring and explore() cannot re-enable it.
    #[cfg_attr(kani, kani::unwind(8))]
    fn path_flags_slp() { flags_case([0, 1, 2]) }
}

vharness! {
    /// @prop C19 @tier quick @mode fast @cost 2 @funcs Path::explore_state,Path::critical,Path::skip_branch,Path::push_load,Path::branch_spurious,Path::branch_thread @bounds 3 decisions of kinds [load,spurious,schedule]
    /// exploration flag recorded per decision, load first.
    #[cfg_attr(kani, kani::unwind(8))]
    fn path_flags_lps() { flags_case([1, 2, 0]) }
}

fn capacity_case(kind: u8) {
    let mut path = Path::new(2, None, true);
    create(&mut path, 0);
    create(&mut path, 1);
    // the stack is full: one more decision must be refused
    create(&mut path, kind);
    assert!(false, "VERIF_MARKER: a decision was recorded beyond max_branches");
}

vharness! {
    /// @prop C19,C18 @tier quick @mode fast @funcs Path::branch_thread @must_fail "Model exceeded maximum number of branches" @bounds max_branches = 2, third decision a schedule point
    /// exceeding max_branches at a scheduling point panics with the documented message (exactly at the limit: the first two decisions are accepted).
    #[cfg_attr(kani, kani::unwind(8))]
    fn path_capacity_schedule() { capacity_case(0) }
}

vharness! {
    /// @prop C19,C18 @tier quick @mode fast @funcs Path::push_load @must_fail "Model exceeded maximum number of branches" @bounds max_branches = 2, third decision an atomic load
    /// exceeding max_branches at an atomic load panics with the documented message.
    #[cfg_attr(kani, kani::unwind(8))]
    fn path_capacity_load() { capacity_case(1) }
}

vharness! {
    /// @prop C19 @tier quick @mode fast @funcs Path::branch_spurious @must_fail "Model exceeded maximum number of branches" @bounds max_branches = 2, third decision a spurious-wakeup point
    /// exceeding max_branches at a spurious-wakeup point panics with the documented message.
    #[cfg_attr(kani, kani::unwind(8))]
    fn path_capacity_spurious() { capacity_case(2) }
}

// ------------------------------------------------------------ C15: preemption accounting

fn any_seed() -> ([Thread; 3], u8) {
    let mut s = [Thread::Disabled; 3];
    let mut act = NONE;
    let mut n = 0;
    let mut k = 0;
    while k < 3 {
        let c: u8 = kani::any();
        kani::assume(c <= 2 || c == 4); // Disabled, Skip, Yield, Active -- what schedule() produces
        if c == 4 {
            n += 1;
            act = k as u8;
        }
        s[k] = t_from(c);
        k += 1;
    }
    kani::assume(n == 1);
    (s, act)
}

/// C15 inheritance lemma: a new scheduling point created above an arbitrary
/// schedule entry (optionally with a load entry in between).
fn inherit_case(with_load_between: bool) {
    let b: u8 = kani::any();
    kani::assume(b <= 3);
    let mut path = Path::new(3, Some(b), true);
    push_any(&mut path, 0);
    if with_load_between {
        push_any(&mut path, 1);
    }
    let prev = snap(&path, 0);
    // reachable stacks: exactly one thread is running at a schedule point, and
    // loom's own invariant preemptions() <= bound holds
    kani::assume(active_of(&prev) != NONE);
    let prev_preempted = prev.initial_active != NONE && prev.initial_active != active_of(&prev);
    let prev_count = prev.preemptions + if prev_preempted { 1 } else { 0 };
    kani::assume(prev_count <= b);
    path.pos = path.branches.len();
    let (seed, d) = any_seed();
    let got = path.branch_thread(eid(), seed.into_iter());
    assert!(got.map(|t| t.as_usize() as u8) == Some(d));
    let top = snap(&path, path.branches.len() - 1);
    assert!(top.kind == 0 && top.prev == 0);
    // the count a point inherits = the count below it + whether the point below
    // switched away from the thread that could have continued
    assert!(top.preemptions == prev_count);
    assert!(top.preemptions <= b);
    // "could have continued": the default choice of the new point is the thread
    // chosen at the point below
    if d == active_of(&prev) {
        assert!(top.initial_active == d);
    } else {
        assert!(top.initial_active == NONE);
    }
    kani::cover!(prev_preempted && d != active_of(&prev), "forced switch right after a preemption");
    kani::cover!(prev_preempted && d == active_of(&prev), "same thread continues after a preemption");
    kani::cover!(!prev_preempted && prev.preemptions == 2, "inherits an older count unchanged");
    std::mem::forget(path);
}

vharness! {
    /// @prop C15 @tier quick @mode fast @cost 2 @funcs Path::branch_thread,Path::last_schedule,Schedule::preemptions,Schedule::active_thread_index @bounds an arbitrary schedule entry (3 symbolic threads, symbolic initial_active and count 0..3) below a new scheduling point with a symbolic seed; preemption bound 0..3
    /// the preemption count a scheduling point inherits is the count below it plus one iff the point below switched away from the thread that could have continued -- also when the new point itself is a forced switch; it never exceeds the bound; the new point's default thread is recorded as "could continue" exactly when it is the thread chosen below.
    #[cfg_attr(kani, kani::unwind(8))]
    fn path_preemption_inherit() { inherit_case(false) }
}

vharness! {
    /// @prop C15 @tier thorough @mode fast @cost 2 @funcs Path::branch_thread,Path::last_schedule @bounds as path_preemption_inherit with an atomic-load decision between the two scheduling points
    /// inheritance skips non-schedule entries.
    #[cfg_attr(kani, kani::unwind(8))]
    fn path_preemption_inherit_over_load() { inherit_case(true) }
}

vharness! {
    /// @prop C15 @tier quick @mode fast @funcs Path::branch_thread @bounds first scheduling point of an execution, symbolic seed
    /// the first scheduling point starts with count zero and its default thread recorded as able to continue.
    #[cfg_attr(kani, kani::unwind(8))]
    fn path_preemption_first_point() {
        let b: u8 = kani::any();
        kani::assume(b <= 3);
        let mut path = Path::new(2, Some(b), true);
        let (seed, d) = any_seed();
        let got = path.branch_thread(eid(), seed.into_iter());
        assert!(got.map(|t| t.as_usize() as u8) == Some(d));
        let top = snap(&path, 0);
        assert!(top.preemptions == 0 && top.initial_active == d && top.prev == NONE);
        kani::cover!(d == 2, "thread 2 runs first");
        std::mem::forget(path);
    }
}

/// Pre-loads the path with one spurious-wakeup decision already advanced to
/// `true` (as Path::step leaves it), cursor at the start.
pub(crate) fn seed_spurious_true(path: &mut Path) {
    let ex = path.exploring;
    path.branches.insert(Spurious { spur: true, exploring: ex });
    path.pos = 0;
}

/// One spurious-wakeup decision (value `false`, alternative unexplored), fully
/// traversed by the iteration that just ended.
pub(crate) fn seed_spurious_false_traversed(path: &mut Path) {
    path.branches.insert(Spurious { spur: false, exploring: true });
    path.pos = 1;
}

/// Pre-loads the path with one scheduling decision (to be replayed) that hands
/// the processor to thread `to`: the operation that reaches this scheduling
/// point is pre-empted there.
pub(crate) fn seed_preempt(path: &mut Path, to: usize, n_threads: usize) {
    let mut threads = [Thread::Disabled; MAX_THREADS];
    let mut k = 0;
    while k < n_threads {
        threads[k] = if k == to { Thread::Active } else { Thread::Visited };
        k += 1;
    }
    let ex = path.exploring;
    path.branches.insert(Schedule { preemptions: 0, initial_active: None, threads, prev: None, exploring: ex });
    path.pos = 0;
}

/// One exploring scheduling decision [thread 0 Active, thread 1 Skip], already traversed.
pub(crate) fn seed_schedule_active0_skip1(path: &mut Path) {
    let mut threads = [Thread::Disabled; MAX_THREADS];
    threads[0] = Thread::Active;
    threads[1] = Thread::Skip;
    path.branches.insert(Schedule { preemptions: 0, initial_active: Some(0), threads, prev: None, exploring: true });
    path.pos = 1;
}

/// State code of thread `t` in the schedule entry at `index` (0 Disabled, 1 Skip, 2 Yield, 3 Pending, 4 Active, 5 Visited).
pub(crate) fn thread_code_at(path: &Path, index: usize, t: usize) -> u8 {
    let s = snap(path, index);
    let mut r = NONE;
    let mut k = 0;
    while k < MAX_THREADS {
        if k == t {
            r = s.threads[k];
        }
        k += 1;
    }
    r
}

/// Replays the recorded decisions from the start (used when a harness issues a
/// second operation and the stack has no room for a new decision).
pub(crate) fn rewind(path: &mut Path) {
    path.pos = 0;
}
