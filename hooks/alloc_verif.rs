// harnesses for alloc (included into loom under cfg(loom_verif))
