// crate::rt::alloc::verif -- C10: allocation tracking state.
#![allow(dead_code, unused_imports)]

use super::*;
use crate::rt::verif::vharness;
#[cfg(not(kani))]
use crate::rt::verif::kani_shim as kani;

pub(crate) fn mk(is_dropped: bool) -> State {
    State { is_dropped, allocated: Location::disabled() }
}

pub(crate) fn is_dropped(s: &State) -> bool {
    s.is_dropped
}
