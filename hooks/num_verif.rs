// crate::rt::num::verif -- C12: the u64 encoding of every atomic value type.
#![allow(dead_code, unused_imports)]

use super::*;
use crate::rt::verif::vharness;
#[cfg(not(kani))]
use crate::rt::verif::kani_shim as kani;

macro_rules! roundtrip {
    ($name:ident, $t:ty) => {
        vharness! {
            /// @prop C12 @tier quick @mode full @funcs Numeric::into_u64,Numeric::from_u64 @bounds every value of the type (full width)
            /// the u64 encoding round-trips every value; values that compare equal encode equal (compare_exchange compares decoded values).
            fn $name() {
                let v: $t = kani::any();
                let w: $t = kani::any();
                assert!(<$t as Numeric>::from_u64(v.into_u64()) == v);
                assert!((v == w) == (<$t as Numeric>::from_u64(v.into_u64()) == <$t as Numeric>::from_u64(w.into_u64())));
                kani::cover!(v != w, "distinct values");
            }
        }
    };
}

//@H num_roundtrip_u8 @prop C12 @tier quick @mode full @funcs Numeric::into_u64,Numeric::from_u64 @bounds every u8 value (full width) :: the u64 encoding round-trips every u8; equal values encode equal
//@H num_roundtrip_u16 @prop C12 @tier quick @mode full @funcs Numeric::into_u64,Numeric::from_u64 @bounds every u16 value (full width) :: the u64 encoding round-trips every u16; equal values encode equal
//@H num_roundtrip_u32 @prop C12 @tier quick @mode full @funcs Numeric::into_u64,Numeric::from_u64 @bounds every u32 value (full width) :: the u64 encoding round-trips every u32; equal values encode equal
//@H num_roundtrip_u64 @prop C12 @tier quick @mode full @funcs Numeric::into_u64,Numeric::from_u64 @bounds every u64 value (full width) :: the u64 encoding round-trips every u64; equal values encode equal
//@H num_roundtrip_usize @prop C12 @tier quick @mode full @funcs Numeric::into_u64,Numeric::from_u64 @bounds every usize value (full width) :: the u64 encoding round-trips every usize; equal values encode equal
//@H num_roundtrip_i8 @prop C12 @tier quick @mode full @funcs Numeric::into_u64,Numeric::from_u64 @bounds every i8 value (full width) :: the u64 encoding round-trips every i8; equal values encode equal
//@H num_roundtrip_i16 @prop C12 @tier quick @mode full @funcs Numeric::into_u64,Numeric::from_u64 @bounds every i16 value (full width) :: the u64 encoding round-trips every i16; equal values encode equal
//@H num_roundtrip_i32 @prop C12 @tier quick @mode full @funcs Numeric::into_u64,Numeric::from_u64 @bounds every i32 value (full width) :: the u64 encoding round-trips every i32; equal values encode equal
//@H num_roundtrip_i64 @prop C12 @tier quick @mode full @funcs Numeric::into_u64,Numeric::from_u64 @bounds every i64 value (full width) :: the u64 encoding round-trips every i64; equal values encode equal
//@H num_roundtrip_isize @prop C12 @tier quick @mode full @funcs Numeric::into_u64,Numeric::from_u64 @bounds every isize value (full width) :: the u64 encoding round-trips every isize; equal values encode equal
roundtrip!(num_roundtrip_u8, u8);
roundtrip!(num_roundtrip_u16, u16);
roundtrip!(num_roundtrip_u32, u32);
roundtrip!(num_roundtrip_u64, u64);
roundtrip!(num_roundtrip_usize, usize);
roundtrip!(num_roundtrip_i8, i8);
roundtrip!(num_roundtrip_i16, i16);
roundtrip!(num_roundtrip_i32, i32);
roundtrip!(num_roundtrip_i64, i64);
roundtrip!(num_roundtrip_isize, isize);

vharness! {
    /// @prop C12 @tier quick @mode full @funcs Numeric::into_u64,Numeric::from_u64 @bounds both bool values; every u64 as stored representation
    /// bool encodes as 0/1 and round-trips.
    fn num_roundtrip_bool() {
        let v: bool = kani::any();
        assert!(<bool as Numeric>::from_u64(v.into_u64()) == v);
        assert!(v.into_u64() == v as u64);
        kani::cover!(v, "true");
    }
}

vharness! {
    /// @prop C12 @tier quick @mode full @funcs Numeric::into_u64,Numeric::from_u64 @bounds every pointer-sized address
    /// raw pointers round-trip through the u64 encoding (address preserved).
    fn num_roundtrip_ptr() {
        let a: usize = kani::any();
        let p = a as *mut u8;
        let q = <*mut u8 as Numeric>::from_u64(p.into_u64());
        assert!(q as usize == a);
        kani::cover!(a != 0, "non-null");
    }
}
