// harnesses for num (included into loom under cfg(loom_verif))
