// harnesses for mpsc (included into loom under cfg(loom_verif))
