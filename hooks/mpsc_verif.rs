// crate::rt::mpsc::verif -- C09 (channel machine), C01-O4, C10 (message count).
#![allow(dead_code, unused_imports)]

use super::*;
use crate::rt::verif::{le, max_raw, vharness, vv, vv_raw};
#[cfg(not(kani))]
use crate::rt::verif::kani_shim as kani;
use crate::rt::MAX_THREADS;

type Raw = [u16; MAX_THREADS];

fn any_access(max_path: usize) -> Option<Access> {
    let present: bool = kani::any();
    if present {
        let p: usize = kani::any();
        kani::assume(p < max_path);
        let v: Raw = kani::any();
        Some(Access::new(p, &vv(v)))
    } else {
        None
    }
}

fn view(a: Option<&Access>) -> Option<(usize, Raw)> {
    a.map(|a| (a.path_id(), vv_raw(a.version())))
}

pub(crate) fn blank_state() -> State {
    State {
        msg_cnt: 0,
        last_send_access: None,
        last_recv_access: None,
        sender_synchronize: Synchronize::new(),
        receiver_synchronize: VecDeque::new(),
        created: Location::disabled(),
    }
}

vharness! {
    /// @prop C01,C09 @tier quick @mode full @funcs mpsc::State::last_dependent_access,mpsc::State::set_last_access @bounds all 2x2 pairs of {send,recv}, arbitrary earlier records
    /// dependence table of channel operations: sends are dependent with sends (queue order), receives with receives; a send and a receive of a non-empty channel commute (blocking at empty is handled by enable/disable).
    fn channel_dependence_table() {
        let p: usize = kani::any();
        kani::assume(p >= 1 && p < 1000);
        let mut st = blank_state();
        st.last_send_access = any_access(p);
        st.last_recv_access = any_access(p);
        let a: bool = kani::any();
        let b: bool = kani::any();
        let to = |s: bool| if s { Action::MsgSend } else { Action::MsgRecv };
        let v: Raw = kani::any();
        let before = view(st.last_dependent_access(to(b)));
        st.set_last_access(to(a), p, &vv(v));
        let after = view(st.last_dependent_access(to(b)));
        if a == b {
            assert!(after == Some((p, v)));
        } else {
            assert!(after == before);
        }
        kani::cover!(a && !b && before.is_some(), "recv after send keeps the older recv");
        std::mem::forget(st);
    }
}

vharness! {
    /// @prop C10 @tier quick @mode full @funcs mpsc::State::check_for_leaks @must_fail "Messages leaked" @bounds all message counts
    /// a channel that still holds messages at the end of the execution is reported: check_for_leaks never returns when msg_cnt != 0.
    fn channel_leak_reported() {
        let mut st = blank_state();
        let n: usize = kani::any();
        kani::assume(n != 0);
        st.msg_cnt = n;
        let idx: usize = kani::any();
        st.check_for_leaks(idx);
        assert!(false, "VERIF_MARKER: check_for_leaks returned although messages are queued");
    }
}

vharness! {
    /// @prop C10 @tier quick @mode full @funcs mpsc::State::check_for_leaks @bounds empty channel
    /// an empty channel is never reported.
    fn channel_no_false_leak() {
        let st = blank_state();
        let idx: usize = kani::any();
        st.check_for_leaks(idx);
        kani::cover!(true, "returned");
        std::mem::forget(st);
    }
}

pub(crate) fn mk(msg_cnt: usize) -> State {
    let mut s = blank_state();
    s.msg_cnt = msg_cnt;
    s
}
