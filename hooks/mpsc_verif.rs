// crate::rt::mpsc::verif -- C09 (channel machine), C01-O4, C10 (message count).
#![allow(dead_code, unused_imports)]

use super::*;
use crate::rt::verif::{le, max_raw, vharness, vv, vv_raw};
#[cfg(not(kani))]
use crate::rt::verif::kani_shim as kani;
use crate::rt::MAX_THREADS;

type Raw = [u16; MAX_THREADS];

fn any_access(max_path: usize) -> Option<Access> {
    let present: bool = kani::any();
    if present {
        let p: usize = kani::any();
        kani::assume(p < max_path);
        let v: Raw = kani::any();
        Some(Access::new(p, &vv(v)))
    } else {
        None
    }
}

fn view(a: Option<&Access>) -> Option<(usize, Raw)> {
    a.map(|a| (a.path_id(), vv_raw(a.version())))
}

pub(crate) fn blank_state() -> State {
    State {
        msg_cnt: 0,
        last_send_access: None,
        last_recv_access: None,
        sender_synchronize: Synchronize::new(),
        receiver_synchronize: VecDeque::new(),
        created: Location::disabled(),
    }
}

vharness! {
    /// @prop C01,C09 @tier quick @mode full @funcs mpsc::State::last_dependent_access,mpsc::State::set_last_access @bounds all 2x2 pairs of {send,recv}, arbitrary earlier records
    /// dependence table of channel operations: sends are dependent with sends (queue order), receives with receives; a send and a receive of a non-empty channel commute (blocking at empty is handled by enable/disable).
    fn channel_dependence_table() {
        let p: usize = kani::any();
        kani::assume(p >= 1 && p < 1000);
        let mut st = blank_state();
        st.last_send_access = any_access(p);
        st.last_recv_access = any_access(p);
        let a: bool = kani::any();
        let b: bool = kani::any();
        let to = |s: bool| if s { Action::MsgSend } else { Action::MsgRecv };
        let v: Raw = kani::any();
        let before = view(st.last_dependent_access(to(b)));
        st.set_last_access(to(a), p, &vv(v));
        let after = view(st.last_dependent_access(to(b)));
        if a == b {
            assert!(after == Some((p, v)));
        } else {
            assert!(after == before);
        }
        kani::cover!(a && !b && before.is_some(), "recv after send keeps the older recv");
        std::mem::forget(st);
    }
}

vharness! {
    /// @prop C10 @tier quick @mode full @funcs mpsc::State::check_for_leaks @must_fail "Messages leaked" @bounds all message counts
    /// a channel that still holds messages at the end of the execution is reported: check_for_leaks never returns when msg_cnt != 0.
    fn channel_leak_reported() {
        let mut st = blank_state();
        let n: usize = kani::any();
        kani::assume(n != 0);
        st.msg_cnt = n;
        let idx: usize = kani::any();
        st.check_for_leaks(idx);
        assert!(false, "VERIF_MARKER: check_for_leaks returned although messages are queued");
    }
}

vharness! {
    /// @prop C10 @tier quick @mode full @funcs mpsc::State::check_for_leaks @bounds empty channel
    /// an empty channel is never reported.
    fn channel_no_false_leak() {
        let st = blank_state();
        let idx: usize = kani::any();
        st.check_for_leaks(idx);
        kani::cover!(true, "returned");
        std::mem::forget(st);
    }
}

pub(crate) fn mk(msg_cnt: usize) -> State {
    let mut s = blank_state();
    s.msg_cnt = msg_cnt;
    s
}

// ------------------------------------------------------------ C09: one-step simulation

use crate::rt::execution::verif as ev;
use crate::rt::object::verif as ov;
use crate::rt::scheduler::verif as sched;
use crate::rt::synchronize::verif as sv;
use crate::rt::thread::verif as tv;

fn eq(a: &Raw, b: &Raw) -> bool {
    le(a, b) && le(b, a)
}

/// World: 3 threads, one channel (object 0) holding `k` queued messages whose
/// send-time views are symbolic.  Every non-acting thread is symbolic: role 0
/// unrelated (Runnable), 1 unrelated (Blocked elsewhere), 2 pending send
/// (Runnable), 3 pending recv (Blocked iff the channel is empty -- the
/// coupling with the reference "blocked receivers" set).
fn world(acting: usize, k: usize) -> (crate::rt::Execution, Channel, [u8; 3], [Raw; 2], Raw) {
    world_roles(acting, k, None)
}

/// `fixed`: concrete roles of the three threads (the acting thread's entry is ignored).
fn world_roles(acting: usize, k: usize, fixed: Option<[u8; 3]>) -> (crate::rt::Execution, Channel, [u8; 3], [Raw; 2], Raw) {
    let mut e = ev::mk_exec(3, 1, None);
    tv::activate(&mut e.threads, acting);
    let mut st = blank_state();
    // room for the queued messages plus the one a send adds: no reallocation inside the operation
    st.receiver_synchronize = VecDeque::with_capacity(k + 1);
    st.msg_cnt = k;
    let ss: Raw = kani::any();
    st.sender_synchronize = sv::mk(ss);
    let mut msgs = [[0u16; MAX_THREADS]; 2];
    let mut i = 0;
    while i < k {
        let m: Raw = kani::any();
        // each message carries the sender view at its send; later ones include earlier ones
        msgs[i] = m;
        st.receiver_synchronize.push_back(sv::mk(m));
        i += 1;
    }
    let r = e.objects.insert(st);
    let mut roles = [0u8; 3];
    let mut t = 0;
    while t < 3 {
        let c: Raw = kani::any();
        tv::th(&mut e.threads, t).causality = vv(c);
        if t != acting {
            let role: u8 = match fixed {
                Some(f) => f[t],
                None => {
                    let r: u8 = kani::any();
                    kani::assume(r <= 3);
                    r
                }
            };
            roles[t] = role;
            let (code, opn) = match role {
                0 => (0, None),
                1 => (2, None),
                2 => (0, Some(ov::op(0, crate::rt::object::Action::Channel(Action::MsgSend)))),
                _ => (if k == 0 { 2 } else { 0 }, Some(ov::op(0, crate::rt::object::Action::Channel(Action::MsgRecv)))),
            };
            tv::th(&mut e.threads, t).state = tv::state_from_code(code);
            tv::th(&mut e.threads, t).operation = opn;
        }
        t += 1;
    }
    (e, Channel { state: r }, roles, msgs, ss)
}

fn code_of(e: &crate::rt::Execution, t: usize) -> u8 {
    tv::state_code(&tv::th_ref(&e.threads, t).state)
}

fn clock(e: &crate::rt::Execution, t: usize) -> Raw {
    vv_raw(&tv::th_ref(&e.threads, t).causality)
}

fn send_case(acting: usize, k: usize, fixed: Option<[u8; 3]>) {
    let (mut e, ch, roles, msgs, ss) = world_roles(acting, k, fixed);
    let cur = clock(&e, acting);
    let others = [clock(&e, 0), clock(&e, 1), clock(&e, 2)];
    sched::enter(&mut e, || ch.send(Location::disabled()));
    assert!(sched::switches() == 0);
    let st = ch.state.get(&e.objects);
    // the message is queued behind the existing ones, stamped with the view of
    // this send and of every earlier send
    assert!(st.msg_cnt == k + 1);
    assert!(st.receiver_synchronize.len() == k + 1);
    let stamp = max_raw(&ss, &cur);
    assert!(eq(&sv::raw(&st.sender_synchronize), &stamp));
    assert!(eq(&sv::raw(&st.receiver_synchronize[k]), &stamp));
    let mut i = 0;
    while i < k {
        assert!(eq(&sv::raw(&st.receiver_synchronize[i]), &msgs[i]));
        i += 1;
    }
    let mut t = 0;
    while t < 3 {
        assert!(eq(&clock(&e, t), &others[t]));
        if t != acting {
            let now = code_of(&e, t);
            match roles[t] {
                // a receiver blocked on the empty channel can run again
                3 => assert!(now == 0),
                1 => assert!(now == 2),
                _ => assert!(now == 0),
            }
        }
        t += 1;
    }
    if fixed.is_none() {
        kani::cover!(roles[(acting + 1) % 3] == 2 && roles[(acting + 2) % 3] == 3, "another sender pending and a receiver waiting");
        kani::cover!(roles[(acting + 1) % 3] == 3 && roles[(acting + 2) % 3] == 3, "two receivers waiting");
    } else {
        kani::cover!(!le(&cur, &ss), "the send adds something to the channel's view");
    }
    std::mem::forget(e);
}

vharness! {
    /// @prop C09,C05,C10 @tier experimental @mode fast @cost 4 @funcs Channel::send,Ref::branch_action,rt::branch,Execution::schedule,Synchronize::sync_store @bounds 3 threads, 1 empty channel, the other two threads symbolic (unrelated / blocked elsewhere / pending send / pending recv), all clock values, sender = thread 1
    /// send on an empty channel: count becomes 1, the message is stamped with the sender's view, every receiver blocked on the channel becomes runnable (whatever other threads are pending on it), nobody else changes.
    #[cfg_attr(kani, kani::unwind(8))]
    fn channel_send_empty_t1() { send_case(1, 0, None) }
}

vharness! {
    /// @prop C09,C10 @tier experimental @mode fast @cost 3 @funcs Channel::send @bounds as channel_send_empty_t1 with one message already queued, sender = thread 0
    /// send on a non-empty channel appends behind the queued message; the stamp accumulates earlier sends (FIFO hand-over order).
    #[cfg_attr(kani, kani::unwind(8))]
    fn channel_send_nonempty_t0() { send_case(0, 1, None) }
}

vharness! {
    /// @prop C09,C05 @tier experimental @mode fast @cost 3 @timeout 3600 @funcs Channel::send @bounds 3 threads, empty channel, sender = thread 1, thread 0 has a pending send on the channel, thread 2 is a receiver blocked on it (concrete roles), all clock values
    /// send on an empty channel wakes the blocked receiver even when a lower-numbered thread is also pending on the channel (as a sender).
    #[cfg_attr(kani, kani::unwind(8))]
    fn channel_send_wakes_receiver_behind_sender() { send_case(1, 0, Some([2, 0, 3])) }
}

fn recv_case(acting: usize, k: usize) {
    let (mut e, ch, roles, msgs, ss) = world(acting, k);
    let cur = clock(&e, acting);
    let others = [clock(&e, 0), clock(&e, 1), clock(&e, 2)];
    let empty = sched::enter(&mut e, || {
        let em = ch.is_empty();
        ch.recv(Location::disabled());
        em
    });
    assert!(!empty);
    assert!(sched::switches() == 0);
    let st = ch.state.get(&e.objects);
    assert!(st.msg_cnt == k - 1);
    assert!(st.receiver_synchronize.len() == k - 1);
    // exactly the oldest message is consumed: the receiver learns its send-time
    // view and nothing about later sends
    assert!(eq(&clock(&e, acting), &max_raw(&cur, &msgs[0])));
    if k == 2 {
        assert!(eq(&sv::raw(&st.receiver_synchronize[0]), &msgs[1]));
    }
    assert!(eq(&sv::raw(&st.sender_synchronize), &ss));
    let mut t = 0;
    while t < 3 {
        if t != acting {
            assert!(eq(&clock(&e, t), &others[t]));
            let now = code_of(&e, t);
            match roles[t] {
                // other receivers are disabled exactly when the channel ran empty
                3 => assert!(now == if k == 1 { 2 } else { 0 }),
                1 => assert!(now == 2),
                _ => assert!(now == 0),
            }
        }
        t += 1;
    }
    kani::cover!(roles[(acting + 1) % 3] == 3, "another receiver pending");
    kani::cover!(roles[(acting + 1) % 3] == 2, "a sender pending");
    std::mem::forget(e);
}

vharness! {
    /// @prop C09,C05,C10 @tier quick @mode fast @cost 2 @funcs Channel::recv,Channel::is_empty,Ref::branch_disable,Synchronize::sync_load @bounds 3 threads, channel with 1 queued message, other threads symbolic, receiver = thread 0
    /// recv of the last message: count 0, the receiver acquires that message's send view, other pending receivers are disabled (channel empty), pending senders are not.
    #[cfg_attr(kani, kani::unwind(8))]
    fn channel_recv_last_t0() { recv_case(0, 1) }
}

vharness! {
    /// @prop C09,C10 @tier quick @mode fast @cost 2 @funcs Channel::recv @bounds channel with 2 queued messages, receiver = thread 2
    /// recv with two queued messages takes the older one only: its view is acquired, the younger message stays queued, nobody is disabled.
    #[cfg_attr(kani, kani::unwind(8))]
    fn channel_recv_first_of_two_t2() { recv_case(2, 2) }
}

vharness! {
    /// @prop C09,C05 @tier thorough @mode fast @cost 2 @funcs Channel::is_empty,Ref::branch_disable,rt::branch,Execution::schedule @bounds 3 threads, empty channel, receiver = thread 1, thread 0 runnable
    /// recv on an empty channel blocks: the caller becomes Blocked with a pending recv on the channel and loom asks for a context switch (first half of the real recv through the real branch_disable/schedule).
    #[cfg_attr(kani, kani::unwind(8))]
    fn channel_recv_blocks_t1() {
        let acting = 1;
        let (mut e, ch, roles, _msgs, _ss) = world(acting, 0);
        tv::th(&mut e.threads, 0).state = tv::state_from_code(0);
        let empty = sched::enter(&mut e, || {
            let em = ch.is_empty();
            ch.state.branch_disable(Action::MsgRecv, em, Location::disabled());
            em
        });
        assert!(empty);
        assert!(code_of(&e, acting) == 2);
        assert!(sched::switches() == 1);
        let next = tv::active_index(&e.threads);
        assert!(next == Some(0) || (next == Some(2) && (roles[2] == 0 || roles[2] == 2)));
        assert!(ch.state.get(&e.objects).msg_cnt == 0);
        kani::cover!(next == Some(0), "thread 0 runs next");
        std::mem::forget(e);
    }
}
