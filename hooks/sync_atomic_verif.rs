// crate::sync::atomic::verif -- C12: public loom atomics against std atomics,
// full-width symbolic operands, one operation after `new`, read-back through
// `unsync_load` (which takes no scheduling point).
#![allow(dead_code, unused_imports)]

use super::*;
use crate::rt::verif as ev;
use crate::rt::verif as sched;
use crate::rt::verif::vharness;
#[cfg(not(kani))]
use crate::rt::verif::kani_shim as kani;
use std::sync::atomic::Ordering::{self, *};

fn any_order() -> Ordering {
    let c: u8 = kani::any();
    kani::assume(c <= 4);
    match c {
        0 => Relaxed,
        1 => Release,
        2 => Acquire,
        3 => AcqRel,
        _ => SeqCst,
    }
}

/// failure orderings valid for compare_exchange / fetch_update
fn any_load_order() -> Ordering {
    let c: u8 = kani::any();
    kani::assume(c <= 2);
    match c {
        0 => Relaxed,
        1 => Acquire,
        _ => SeqCst,
    }
}

/// One harness per (atomic type, operation).  Operands are symbolic at full
/// width, orderings symbolic over the valid ones.
macro_rules! int_harness {
    ($name:ident, $loom:ident, $std:ty, $t:ty, $op:expr) => {
        vharness! {
            #[cfg_attr(kani, kani::unwind(8))]
            fn $name() {
                let v0: $t = kani::any();
                let x: $t = kani::any();
                let y: $t = kani::any();
                let ord = any_order();
                let ford = any_load_order();
                let s = <$std>::new(v0);
                let mut e = ev::mk_exec_caps(1, 2, 1);
                let ok = sched::enter(&mut e, || {
                    let a = $loom::new(v0);
                    let mut same = true;
                    let op: u8 = $op;
                    match op {
                        0 => same &= a.fetch_add(x, ord) == s.fetch_add(x, ord),
                        1 => same &= a.fetch_sub(x, ord) == s.fetch_sub(x, ord),
                        2 => same &= a.fetch_max(x, ord) == s.fetch_max(x, ord),
                        3 => same &= a.fetch_min(x, ord) == s.fetch_min(x, ord),
                        4 => same &= a.fetch_and(x, ord) == s.fetch_and(x, ord),
                        5 => same &= a.fetch_nand(x, ord) == s.fetch_nand(x, ord),
                        6 => same &= a.fetch_or(x, ord) == s.fetch_or(x, ord),
                        7 => same &= a.fetch_xor(x, ord) == s.fetch_xor(x, ord),
                        8 => same &= a.swap(x, ord) == s.swap(x, ord),
                        9 => same &= a.compare_exchange(x, y, ord, ford) == s.compare_exchange(x, y, ord, ford),
                        10 => {
                            // loom models no spurious failure of the weak form: compare with the strong std form
                            same &= a.compare_exchange_weak(x, y, ord, ford) == s.compare_exchange(x, y, ord, ford)
                        }
                        11 => {
                            let keep: bool = kani::any();
                            let f = |v: $t| if keep { Some(v ^ x) } else { None };
                            same &= a.fetch_update(ord, ford, f) == s.fetch_update(ord, ford, f)
                        }
                        12 => {
                            let lo = any_load_order();
                            same &= a.load(lo) == s.load(lo)
                        }
                        13 => {
                            let c: u8 = kani::any();
                            kani::assume(c <= 2);
                            let so = match c { 0 => Relaxed, 1 => Release, _ => SeqCst };
                            a.store(x, so);
                            s.store(x, so);
                        }
                        14 => {
                            #[allow(deprecated)]
                            {
                                same &= a.compare_and_swap(x, y, ord) == s.compare_and_swap(x, y, ord)
                            }
                        }
                        _ => {
                            let mut a = a;
                            a.with_mut(|p| *p = (*p).wrapping_add(x));
                            s.store(v0.wrapping_add(x), Relaxed);
                            same &= unsafe { a.unsync_load() } == s.load(Relaxed);
                            std::mem::forget(a);
                            return same;
                        }
                    }
                    // final content
                    same &= unsafe { a.unsync_load() } == s.load(Relaxed);
                    std::mem::forget(a);
                    same
                });
                assert!(ok);
                kani::cover!(x != v0, "operand differs from the stored value");
                kani::cover!(x == v0, "operand equals the stored value");
                std::mem::forget(e);
            }
        }
    };
}

//@H atomic_u64_fetch_max @prop C12 @tier quick @mode fast @cost 3 @timeout 3600 @funcs AtomicU64::new,AtomicU64::fetch_max,AtomicU64::unsync_load,Atomic::rmw,Atomic::try_rmw,rt::Atomic::rmw,Numeric::into_u64,Numeric::from_u64 @bounds one operation after new; every u64 initial value and operand (full width); every valid ordering :: AtomicU64::fetch_max returns what std's returns (including the Ok/Err shape) and leaves std's content, for all operand values including wrap-around and sign/width boundaries
int_harness!(atomic_u64_fetch_max, AtomicU64, std::sync::atomic::AtomicU64, u64, 2);
//@H atomic_i8_fetch_add @prop C12 @tier thorough @mode fast @cost 3 @timeout 3600 @funcs AtomicI8::new,AtomicI8::fetch_add,AtomicI8::unsync_load,Atomic::rmw,Atomic::try_rmw,rt::Atomic::rmw,Numeric::into_u64,Numeric::from_u64 @bounds one operation after new; every i8 initial value and operand (full width); every valid ordering :: AtomicI8::fetch_add returns what std's returns (including the Ok/Err shape) and leaves std's content, for all operand values including wrap-around and sign/width boundaries
int_harness!(atomic_i8_fetch_add, AtomicI8, std::sync::atomic::AtomicI8, i8, 0);
//@H atomic_usize_fetch_min @prop C12 @tier thorough @mode fast @cost 3 @timeout 3600 @funcs AtomicUsize::new,AtomicUsize::fetch_min,AtomicUsize::unsync_load,Atomic::rmw,Atomic::try_rmw,rt::Atomic::rmw,Numeric::into_u64,Numeric::from_u64 @bounds one operation after new; every usize initial value and operand (full width); every valid ordering :: AtomicUsize::fetch_min returns what std's returns (including the Ok/Err shape) and leaves std's content, for all operand values including wrap-around and sign/width boundaries
int_harness!(atomic_usize_fetch_min, AtomicUsize, std::sync::atomic::AtomicUsize, usize, 3);
//@H atomic_i64_fetch_max @prop C12 @tier thorough @mode fast @cost 3 @timeout 3600 @funcs AtomicI64::new,AtomicI64::fetch_max,AtomicI64::unsync_load,Atomic::rmw,Atomic::try_rmw,rt::Atomic::rmw,Numeric::into_u64,Numeric::from_u64 @bounds one operation after new; every i64 initial value and operand (full width); every valid ordering :: AtomicI64::fetch_max returns what std's returns (including the Ok/Err shape) and leaves std's content, for all operand values including wrap-around and sign/width boundaries
int_harness!(atomic_i64_fetch_max, AtomicI64, std::sync::atomic::AtomicI64, i64, 2);
//@H atomic_u32_fetch_nand @prop C12 @tier thorough @mode fast @cost 3 @timeout 3600 @funcs AtomicU32::new,AtomicU32::fetch_nand,AtomicU32::unsync_load,Atomic::rmw,Atomic::try_rmw,rt::Atomic::rmw,Numeric::into_u64,Numeric::from_u64 @bounds one operation after new; every u32 initial value and operand (full width); every valid ordering :: AtomicU32::fetch_nand returns what std's returns (including the Ok/Err shape) and leaves std's content, for all operand values including wrap-around and sign/width boundaries
int_harness!(atomic_u32_fetch_nand, AtomicU32, std::sync::atomic::AtomicU32, u32, 5);
//@H atomic_u16_compare_exchange_weak @prop C12 @tier thorough @mode fast @cost 3 @timeout 3600 @funcs AtomicU16::new,AtomicU16::compare_exchange_weak,AtomicU16::unsync_load,Atomic::rmw,Atomic::try_rmw,rt::Atomic::rmw,Numeric::into_u64,Numeric::from_u64 @bounds one operation after new; every u16 initial value and operand (full width); every valid ordering :: AtomicU16::compare_exchange_weak returns what std's returns (including the Ok/Err shape) and leaves std's content, for all operand values including wrap-around and sign/width boundaries
int_harness!(atomic_u16_compare_exchange_weak, AtomicU16, std::sync::atomic::AtomicU16, u16, 10);
//@H atomic_isize_store @prop C12 @tier thorough @mode fast @cost 3 @timeout 3600 @funcs AtomicIsize::new,AtomicIsize::store,AtomicIsize::unsync_load,Atomic::rmw,Atomic::try_rmw,rt::Atomic::rmw,Numeric::into_u64,Numeric::from_u64 @bounds one operation after new; every isize initial value and operand (full width); every valid ordering :: AtomicIsize::store returns what std's returns (including the Ok/Err shape) and leaves std's content, for all operand values including wrap-around and sign/width boundaries
int_harness!(atomic_isize_store, AtomicIsize, std::sync::atomic::AtomicIsize, isize, 13);
//@H atomic_u8_compare_exchange @prop C12 @tier thorough @mode fast @cost 3 @timeout 3600 @funcs AtomicU8::new,AtomicU8::compare_exchange,AtomicU8::unsync_load,Atomic::try_rmw,rt::Atomic::rmw,Numeric::into_u64,Numeric::from_u64 @bounds one operation after new; every u8 initial value and operands (full width); every valid success/failure ordering :: AtomicU8::compare_exchange returns what std's returns (Ok/Err shape and payload) and leaves std's content
int_harness!(atomic_u8_compare_exchange, AtomicU8, std::sync::atomic::AtomicU8, u8, 9);
// fetch_update is NOT encoded: its retry loop re-runs the whole modelled RMW per
// unwinding (8 x ~0.5 M SSA steps) and needs four decisions; out of reach here.
