// harnesses for sync_atomic (included into loom under cfg(loom_verif))
