// crate::sync::atomic::verif -- C12: public loom atomics against std atomics,
// full-width symbolic operands, one operation after `new`, read-back through
// `unsync_load` (which takes no scheduling point).
#![allow(dead_code, unused_imports)]

use super::*;
use crate::rt::verif as ev;
use crate::rt::verif as sched;
use crate::rt::verif::vharness;
#[cfg(not(kani))]
use crate::rt::verif::kani_shim as kani;
use std::sync::atomic::Ordering::{self, *};

fn any_order() -> Ordering {
    let c: u8 = kani::any();
    kani::assume(c <= 4);
    match c {
        0 => Relaxed,
        1 => Release,
        2 => Acquire,
        3 => AcqRel,
        _ => SeqCst,
    }
}

/// failure orderings valid for compare_exchange / fetch_update
fn any_load_order() -> Ordering {
    let c: u8 = kani::any();
    kani::assume(c <= 2);
    match c {
        0 => Relaxed,
        1 => Acquire,
        _ => SeqCst,
    }
}

/// One harness per (atomic type, operation group).  Inside, the operation is
/// chosen by a symbolic selector, operands are symbolic at full width.
macro_rules! int_harness {
    ($name:ident, $loom:ident, $std:ty, $t:ty, $group:expr, $tier:literal, $doc:literal) => {
        vharness! {
            #[doc = $doc]
            #[cfg_attr(kani, kani::unwind(8))]
            fn $name() {
                let v0: $t = kani::any();
                let x: $t = kani::any();
                let y: $t = kani::any();
                let sel: u8 = kani::any();
                kani::assume(sel < 4);
                let ord = any_order();
                let ford = any_load_order();
                let s = <$std>::new(v0);
                let mut e = ev::mk_exec(1, 2, None);
                let ok = sched::enter(&mut e, || {
                    let a = $loom::new(v0);
                    let mut same = true;
                    match ($group, sel) {
                        (0, 0) => same &= a.fetch_add(x, ord) == s.fetch_add(x, ord),
                        (0, 1) => same &= a.fetch_sub(x, ord) == s.fetch_sub(x, ord),
                        (0, 2) => same &= a.fetch_max(x, ord) == s.fetch_max(x, ord),
                        (0, _) => same &= a.fetch_min(x, ord) == s.fetch_min(x, ord),
                        (1, 0) => same &= a.fetch_and(x, ord) == s.fetch_and(x, ord),
                        (1, 1) => same &= a.fetch_nand(x, ord) == s.fetch_nand(x, ord),
                        (1, 2) => same &= a.fetch_or(x, ord) == s.fetch_or(x, ord),
                        (1, _) => same &= a.fetch_xor(x, ord) == s.fetch_xor(x, ord),
                        (2, 0) => same &= a.swap(x, ord) == s.swap(x, ord),
                        (2, 1) => same &= a.compare_exchange(x, y, ord, ford) == s.compare_exchange(x, y, ord, ford),
                        (2, 2) => {
                            // loom models no spurious failure of the weak form: compare with the strong std form
                            same &= a.compare_exchange_weak(x, y, ord, ford) == s.compare_exchange(x, y, ord, ford)
                        }
                        (2, _) => {
                            let keep: bool = kani::any();
                            let f = |v: $t| if keep { Some(v ^ x) } else { None };
                            same &= a.fetch_update(ord, ford, f) == s.fetch_update(ord, ford, f)
                        }
                        (_, 0) => {
                            let lo = any_load_order();
                            same &= a.load(lo) == s.load(lo)
                        }
                        (_, 1) => {
                            let c: u8 = kani::any();
                            kani::assume(c <= 2);
                            let so = match c { 0 => Relaxed, 1 => Release, _ => SeqCst };
                            a.store(x, so);
                            s.store(x, so);
                        }
                        (_, 2) => {
                            #[allow(deprecated)]
                            {
                                same &= a.compare_and_swap(x, y, ord) == s.compare_and_swap(x, y, ord)
                            }
                        }
                        (_, _) => {
                            let mut a2 = $loom::new(v0);
                            a2.with_mut(|p| *p = (*p).wrapping_add(x));
                            same &= unsafe { a2.unsync_load() } == v0.wrapping_add(x);
                        }
                    }
                    // final content
                    same &= unsafe { a.unsync_load() } == s.load(Relaxed);
                    std::mem::forget(a);
                    same
                });
                assert!(ok);
                kani::cover!(sel == 2, "third operation of the group");
                kani::cover!(sel == 3, "fourth operation of the group");
                std::mem::forget(e);
            }
        }
    };
}

//@H atomic_u64_arith @prop C12 @tier quick @mode fast @cost 3 @timeout 3600 @funcs AtomicU64::{new,fetch_add,fetch_sub,fetch_max,fetch_min,unsync_load},Atomic::rmw,rt::Atomic::rmw,Numeric @bounds one operation after new; all u64 initial values and operands; all orderings :: AtomicU64 fetch_add/fetch_sub/fetch_max/fetch_min return std's value and leave std's content, for every operand pair including wrap-around and the 2^63 boundary.
//@H atomic_i8_arith @prop C12 @tier quick @mode fast @cost 3 @timeout 3600 @funcs AtomicI8::{new,fetch_add,fetch_sub,fetch_max,fetch_min,unsync_load},Atomic::rmw,Numeric @bounds one operation after new; all i8 values; all orderings :: AtomicI8 arithmetic group: sign extension and truncation through the u64 encoding are invisible.
//@H atomic_i64_bits @prop C12 @tier quick @mode fast @cost 3 @timeout 3600 @funcs AtomicI64::{fetch_and,fetch_nand,fetch_or,fetch_xor} @bounds one operation after new; all i64 values; all orderings :: AtomicI64 bitwise group equals std.
//@H atomic_u8_cas @prop C12 @tier quick @mode fast @cost 3 @timeout 3600 @funcs AtomicU8::{swap,compare_exchange,compare_exchange_weak,fetch_update},Atomic::try_rmw @bounds one operation after new; all u8 values; all valid success/failure orderings :: AtomicU8 swap / compare_exchange(_weak) / fetch_update: same Ok/Err shape and payload as std, same final content.
//@H atomic_i16_misc @prop C12 @tier quick @mode fast @cost 3 @timeout 3600 @funcs AtomicI16::{load,store,compare_and_swap,with_mut,unsync_load} @bounds one operation after new; all i16 values :: AtomicI16 load / store / compare_and_swap / with_mut equal std.
//@H atomic_usize_arith @prop C12 @tier thorough @mode fast @cost 3 @timeout 3600 @funcs AtomicUsize::{fetch_add,fetch_sub,fetch_max,fetch_min} @bounds one operation after new; all usize values :: AtomicUsize arithmetic group equals std.
//@H atomic_i64_arith @prop C12 @tier thorough @mode fast @cost 3 @timeout 3600 @funcs AtomicI64::{fetch_add,fetch_sub,fetch_max,fetch_min} @bounds one operation after new; all i64 values :: AtomicI64 arithmetic group equals std.
//@H atomic_u32_bits @prop C12 @tier thorough @mode fast @cost 3 @timeout 3600 @funcs AtomicU32::{fetch_and,fetch_nand,fetch_or,fetch_xor} @bounds one operation after new; all u32 values :: AtomicU32 bitwise group equals std.
//@H atomic_isize_cas @prop C12 @tier thorough @mode fast @cost 3 @timeout 3600 @funcs AtomicIsize::{swap,compare_exchange,compare_exchange_weak,fetch_update} @bounds one operation after new; all isize values :: AtomicIsize CAS group equals std.
//@H atomic_u16_arith @prop C12 @tier thorough @mode fast @cost 3 @timeout 3600 @funcs AtomicU16::{fetch_add,fetch_sub,fetch_max,fetch_min} @bounds one operation after new; all u16 values :: AtomicU16 arithmetic group equals std.
//@H atomic_i32_cas @prop C12 @tier thorough @mode fast @cost 3 @timeout 3600 @funcs AtomicI32::{swap,compare_exchange,compare_exchange_weak,fetch_update} @bounds one operation after new; all i32 values :: AtomicI32 CAS group equals std.
int_harness!(atomic_u64_arith, AtomicU64, std::sync::atomic::AtomicU64, u64, 0u8, "quick",
    "@prop C12 @tier quick @mode fast @cost 3 @timeout 3600 @funcs AtomicU64::{new,fetch_add,fetch_sub,fetch_max,fetch_min,unsync_load},Atomic::rmw,rt::Atomic::rmw,Numeric @bounds one operation after new; all u64 initial values and operands; all orderings\nAtomicU64 fetch_add/fetch_sub/fetch_max/fetch_min return std's value and leave std's content, for every operand pair including wrap-around and the 2^63 boundary.");
int_harness!(atomic_i8_arith, AtomicI8, std::sync::atomic::AtomicI8, i8, 0u8, "quick",
    "@prop C12 @tier quick @mode fast @cost 3 @timeout 3600 @funcs AtomicI8::{new,fetch_add,fetch_sub,fetch_max,fetch_min,unsync_load},Atomic::rmw,Numeric @bounds one operation after new; all i8 values; all orderings\nAtomicI8 arithmetic group: sign extension and truncation through the u64 encoding are invisible.");
int_harness!(atomic_i64_bits, AtomicI64, std::sync::atomic::AtomicI64, i64, 1u8, "quick",
    "@prop C12 @tier quick @mode fast @cost 3 @timeout 3600 @funcs AtomicI64::{fetch_and,fetch_nand,fetch_or,fetch_xor} @bounds one operation after new; all i64 values; all orderings\nAtomicI64 bitwise group equals std.");
int_harness!(atomic_u8_cas, AtomicU8, std::sync::atomic::AtomicU8, u8, 2u8, "quick",
    "@prop C12 @tier quick @mode fast @cost 3 @timeout 3600 @funcs AtomicU8::{swap,compare_exchange,compare_exchange_weak,fetch_update},Atomic::try_rmw @bounds one operation after new; all u8 values; all valid success/failure orderings\nAtomicU8 swap / compare_exchange(_weak) / fetch_update: same Ok/Err shape and payload as std, same final content.");
int_harness!(atomic_i16_misc, AtomicI16, std::sync::atomic::AtomicI16, i16, 3u8, "quick",
    "@prop C12 @tier quick @mode fast @cost 3 @timeout 3600 @funcs AtomicI16::{load,store,compare_and_swap,with_mut,unsync_load} @bounds one operation after new; all i16 values\nAtomicI16 load / store / compare_and_swap / with_mut equal std.");
int_harness!(atomic_usize_arith, AtomicUsize, std::sync::atomic::AtomicUsize, usize, 0u8, "thorough",
    "@prop C12 @tier thorough @mode fast @cost 3 @timeout 3600 @funcs AtomicUsize::{fetch_add,fetch_sub,fetch_max,fetch_min} @bounds one operation after new; all usize values\nAtomicUsize arithmetic group equals std.");
int_harness!(atomic_i64_arith, AtomicI64, std::sync::atomic::AtomicI64, i64, 0u8, "thorough",
    "@prop C12 @tier thorough @mode fast @cost 3 @timeout 3600 @funcs AtomicI64::{fetch_add,fetch_sub,fetch_max,fetch_min} @bounds one operation after new; all i64 values\nAtomicI64 arithmetic group equals std.");
int_harness!(atomic_u32_bits, AtomicU32, std::sync::atomic::AtomicU32, u32, 1u8, "thorough",
    "@prop C12 @tier thorough @mode fast @cost 3 @timeout 3600 @funcs AtomicU32::{fetch_and,fetch_nand,fetch_or,fetch_xor} @bounds one operation after new; all u32 values\nAtomicU32 bitwise group equals std.");
int_harness!(atomic_isize_cas, AtomicIsize, std::sync::atomic::AtomicIsize, isize, 2u8, "thorough",
    "@prop C12 @tier thorough @mode fast @cost 3 @timeout 3600 @funcs AtomicIsize::{swap,compare_exchange,compare_exchange_weak,fetch_update} @bounds one operation after new; all isize values\nAtomicIsize CAS group equals std.");
int_harness!(atomic_u16_arith, AtomicU16, std::sync::atomic::AtomicU16, u16, 0u8, "thorough",
    "@prop C12 @tier thorough @mode fast @cost 3 @timeout 3600 @funcs AtomicU16::{fetch_add,fetch_sub,fetch_max,fetch_min} @bounds one operation after new; all u16 values\nAtomicU16 arithmetic group equals std.");
int_harness!(atomic_i32_cas, AtomicI32, std::sync::atomic::AtomicI32, i32, 2u8, "thorough",
    "@prop C12 @tier thorough @mode fast @cost 3 @timeout 3600 @funcs AtomicI32::{swap,compare_exchange,compare_exchange_weak,fetch_update} @bounds one operation after new; all i32 values\nAtomicI32 CAS group equals std.");
