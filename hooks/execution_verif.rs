// crate::rt::execution::verif
#![allow(dead_code, unused_imports)]

use super::*;

/// A fixed execution id (the real `Id::new` draws from a global counter).
pub(crate) fn id(n: usize) -> Id {
    Id(n)
}
