// crate::rt::execution::verif -- Execution worlds for harnesses, the deadlock
// detector (C05), reset between iterations (C16).
#![allow(dead_code, unused_imports)]

use super::*;
use crate::rt::thread::verif as tv;
use crate::rt::verif::{le, max_raw, vharness, vv, vv_raw};
#[cfg(not(kani))]
use crate::rt::verif::kani_shim as kani;
use crate::rt::MAX_THREADS;

/// A fixed execution id (the real `Id::new` draws from a global counter).
pub(crate) fn id(n: usize) -> Id {
    Id(n)
}

/// A real Execution (constructed by `Execution::new`) with `n` threads and the
/// fixed execution id used by `thread::verif::tid`.
pub(crate) fn mk_exec(n: usize, max_branches: usize, preemption_bound: Option<usize>) -> Execution {
    let mut e = Execution::new(n, max_branches, preemption_bound, true);
    e.id = id(tv::EXEC_ID);
    let old = std::mem::replace(&mut e.threads, tv::mk_set(n));
    std::mem::forget(old);
    e
}

/// Like `mk_exec` with separate capacities for the decision stack and the
/// object store (the object store's byte size dominates the formula size).
pub(crate) fn mk_exec_caps(n: usize, path_cap: usize, obj_cap: usize) -> Execution {
    let mut e = mk_exec(n, path_cap, None);
    let old = std::mem::replace(&mut e.objects, object::Store::with_capacity(obj_cap));
    std::mem::forget(old);
    e
}

/// Replace the thread set (e.g. by one with symbolic clocks).
pub(crate) fn set_threads(e: &mut Execution, set: thread::Set) {
    let old = std::mem::replace(&mut e.threads, set);
    std::mem::forget(old);
}

// ------------------------------------------------------------ C05: deadlock detector

/// World: 3 threads with symbolic states (0 Runnable, 1 Runnable+token,
/// 2 Blocked, 3 Yield, 4 Terminated) and yield counts, no pending operations,
/// `active` was running.  Returns (execution, codes).
fn detector_world(active: usize) -> (Execution, [u8; 3], [usize; 3]) {
    let mut e = mk_exec(3, 4, None);
    tv::activate(&mut e.threads, active);
    let mut codes = [0u8; 3];
    let mut yc = [0usize; 3];
    let mut t = 0;
    while t < 3 {
        let c: u8 = kani::any();
        kani::assume(c <= 4);
        codes[t] = c;
        let y: usize = kani::any();
        kani::assume(y <= 2);
        yc[t] = y;
        tv::th(&mut e.threads, t).state = tv::state_from_code(c);
        tv::th(&mut e.threads, t).yield_count = y;
        t += 1;
    }
    (e, codes, yc)
}

fn can_step(c: u8) -> bool {
    c == 0 || c == 1 || c == 3
}

fn no_deadlock_case(active: usize) {
    let (mut e, codes, yc) = detector_world(active);
    let any_can = can_step(codes[0]) || can_step(codes[1]) || can_step(codes[2]);
    let all_done = codes[0] == 4 && codes[1] == 4 && codes[2] == 4;
    // reference: no deadlock in this state
    kani::assume(any_can || all_done);
    let switched = e.schedule();
    if all_done {
        assert!(switched);
        assert!(tv::active_index(&e.threads).is_none());
    } else {
        let next = tv::active_index(&e.threads);
        assert!(next.is_some());
        let n = next.unwrap();
        assert!(n < 3 && can_step(codes[n]));
        let any_runnable = codes[0] <= 1 || codes[1] <= 1 || codes[2] <= 1;
        // the running thread keeps running while it is runnable (no gratuitous pre-emption)
        if codes[active] <= 1 {
            assert!(n == active);
        }
        // a yielded thread is chosen only when nobody is runnable
        if codes[n] == 3 {
            assert!(!any_runnable);
        }
        // among runnable candidates the one that yielded least is preferred
        if codes[active] > 1 && any_runnable {
            let mut t = 0;
            while t < 3 {
                if codes[t] <= 1 {
                    assert!(yc[n] <= yc[t]);
                }
                t += 1;
            }
        }
        assert!(switched == (n != active));
        // the decision is recorded with every thread's availability: the chosen
        // thread Active, other runnable threads (with or without a park token)
        // Skip -- i.e. eligible for a later backtrack point --, yielded threads
        // Yield, blocked / finished threads Disabled
        let mut t = 0;
        while t < 3 {
            let rec = crate::rt::path::verif::thread_code_at(&e.path, 0, t);
            if t == n {
                assert!(rec == 4);
            } else if codes[t] <= 1 {
                assert!(rec == 1);
            } else if codes[t] == 3 {
                assert!(rec == 2);
            } else {
                assert!(rec == 0);
            }
            t += 1;
        }
        // every other yielded thread is runnable again afterwards; nobody else changes
        let mut t = 0;
        while t < 3 {
            let after = tv::state_code(&tv::th_ref(&e.threads, t).state);
            if codes[t] == 3 && t != n {
                assert!(after == 0);
            } else {
                assert!(after == codes[t]);
            }
            t += 1;
        }
    }
    kani::cover!(all_done, "all threads finished");
    kani::cover!(!all_done && codes[active] == 2, "running thread just blocked, another one takes over");
    kani::cover!(!all_done && codes[0] == 3 && codes[1] == 3 && codes[2] >= 2, "only yielded threads can run");
    std::mem::forget(e);
}

vharness! {
    /// @prop C05,C18 @tier quick @mode fast @cost 2 @funcs Execution::schedule,Path::branch_thread,Set::set_active,Thread::set_runnable @bounds 3 threads, every combination of thread states {Runnable,Runnable+token,Blocked,Yield,Terminated} and yield counts 0..2, no pending operations, thread 0 was running
    /// no false deadlock: whenever some thread can step (or all have finished) schedule() does not raise the deadlock assertion, picks a thread that can step, prefers the running thread, picks a yielded thread only if nobody is runnable, and re-activates the other yielded threads.
    #[cfg_attr(kani, kani::unwind(8))]
    fn schedule_no_false_deadlock_t0() { no_deadlock_case(0) }
}

vharness! {
    /// @prop C05,C18 @tier thorough @mode fast @cost 2 @funcs Execution::schedule @bounds as schedule_no_false_deadlock_t0, thread 1 was running
    /// no false deadlock, non-initial running thread.
    #[cfg_attr(kani, kani::unwind(8))]
    fn schedule_no_false_deadlock_t1() { no_deadlock_case(1) }
}

vharness! {
    /// @prop C05 @tier quick @mode fast @cost 2 @funcs Execution::schedule @must_fail "deadlock; threads" @bounds 3 threads, every combination of states in which nobody can step and somebody is Blocked
    /// no missed deadlock: when no thread is Runnable or Yield and not all are Terminated, schedule() never returns normally.
    #[cfg_attr(kani, kani::unwind(8))]
    fn schedule_no_missed_deadlock() {
        let (mut e, codes, _yc) = detector_world(2);
        let any_can = can_step(codes[0]) || can_step(codes[1]) || can_step(codes[2]);
        let all_done = codes[0] == 4 && codes[1] == 4 && codes[2] == 4;
        kani::assume(!any_can && !all_done);
        e.schedule();
        assert!(false, "VERIF_MARKER: schedule returned from a deadlocked state");
    }
}

// ------------------------------------------------------------ C16: reset between iterations

vharness! {
    /// @prop C16 @tier thorough @mode fast @cost 3 @timeout 3600 @funcs Execution::step,Path::step,Store::clear,Set::clear,lazy_static::Set::reset @bounds execution dirtied with 3 threads (symbolic clocks and states), a symbolic SC-fence view, one object, one decision with an unexplored alternative; Vec::clear / Vec::truncate stubbed to skip destructors
    /// Execution::step hands the next iteration the initial state: one main thread, zero clocks, zero SC-fence view, empty object store and registries, cursor at the start of the retained path, a fresh execution id; configuration (max_threads, location, log) is preserved.
    #[cfg_attr(kani, kani::unwind(8))]
    #[cfg_attr(kani, kani::stub(std::vec::Vec::clear, crate::rt::verif::stubs::vec_clear_no_drop))]
    #[cfg_attr(kani, kani::stub(std::vec::Vec::truncate, crate::rt::verif::stubs::vec_truncate_no_drop))]
    fn execution_step_resets() {
        let mut e = mk_exec(3, 2, None);
        tv::havoc_clocks(&mut e.threads, 3);
        let sc: [u16; MAX_THREADS] = kani::any();
        e.threads.seq_cst_causality = vv(sc);
        let mut t = 0;
        while t < 3 {
            let c: u8 = kani::any();
            kani::assume(c <= 4);
            tv::th(&mut e.threads, t).state = tv::state_from_code(c);
            t += 1;
        }
        tv::deactivate(&mut e.threads);
        e.objects.insert(crate::rt::mutex::verif::mk_unlocked());
        crate::rt::path::verif::seed_spurious_false_traversed(&mut e.path);
        let loc: bool = kani::any();
        let log: bool = kani::any();
        e.location = loc;
        e.log = log;
        // the model closure drops the lazy statics at the end of every iteration
        std::mem::forget(e.lazy_statics.drop());
        let old_id = e.id;
        let next = e.step();
        assert!(next.is_some());
        let n = next.unwrap();
        assert!(n.id != old_id);
        assert!(n.threads.execution_id() == n.id);
        assert!(tv::len(&n.threads) == 1);
        assert!(tv::active_index(&n.threads) == Some(0));
        let zero = [0u16; MAX_THREADS];
        assert!(le(&vv_raw(&n.threads.seq_cst_causality), &zero));
        let th = tv::th_ref(&n.threads, 0);
        assert!(tv::state_code(&th.state) == 0);
        assert!(le(&vv_raw(&th.causality), &zero) && le(&vv_raw(&th.released), &zero) && le(&vv_raw(&th.dpor_vv), &zero));
        assert!(th.last_yield.is_none() && th.yield_count == 0 && th.operation.is_none());
        assert!(n.objects.len() == 0);
        assert!(n.raw_allocations.is_empty() && n.arc_objs.is_empty());
        assert!(n.path.pos() == 0);
        assert!(n.max_threads == 3 && n.max_history == 7);
        assert!(n.location == loc && n.log == log);
        kani::cover!(!le(&sc, &zero), "SC-fence view was advanced in the previous iteration");
        std::mem::forget(n);
    }
}

// ------------------------------------------------------------ C01-O1 (local form): the DPOR rule inside schedule()

vharness! {
    /// @prop C01 @tier quick @mode fast @cost 2 @timeout 2400 @funcs Execution::schedule,Store::last_dependent_access,Access::happens_before,Path::backtrack,Schedule::backtrack,Store::set_last_access @bounds 2 threads, both with a pending operation (symbolic: load/store/rmw) on one atomic whose last access / last non-load access records (made at decision 0) carry symbolic DPOR clocks; symbolic DPOR clocks of both threads; one earlier scheduling decision [thread 0 active, thread 1 skipped]
    /// the DPOR rule: at a scheduling point, for every thread whose pending operation is dependent with an earlier access that does not happen-before it (DPOR clocks), a backtrack point for that thread is requested at that access's decision; otherwise none. Afterwards the chosen thread's DPOR clock absorbs the access it depends on, ticks, and the operation is recorded as the object's last access at the new decision.
    #[cfg_attr(kani, kani::unwind(8))]
    fn schedule_dpor_rule() {
        use crate::rt::atomic::verif as av;
        let mut e = mk_exec_caps(2, 2, 1);
        tv::activate(&mut e.threads, 0);
        // earlier decision 0: thread 0 ran, thread 1 was runnable but not explored yet
        crate::rt::path::verif::seed_schedule_active0_skip1(&mut e.path);
        // the atomic with its access records
        let a_any: [u16; MAX_THREADS] = kani::any();
        let a_nl: [u16; MAX_THREADS] = kani::any();
        let has_nl: bool = kani::any();
        let r = e.objects.insert(av::state_with_accesses(Some((0, a_any)), if has_nl { Some((0, a_nl)) } else { None }));
        let idx = crate::rt::object::verif::ref_index(r);
        let k0: u8 = kani::any();
        let k1: u8 = kani::any();
        kani::assume(k0 <= 2 && k1 <= 2);
        let d0: [u16; MAX_THREADS] = kani::any();
        let d1: [u16; MAX_THREADS] = kani::any();
        // clocks far from the u16 limit (overflow of a clock component is outside the claim)
        kani::assume(d0[0] < u16::MAX && a_any[0] < u16::MAX && a_nl[0] < u16::MAX);
        tv::th(&mut e.threads, 0).dpor_vv = vv(d0);
        tv::th(&mut e.threads, 1).dpor_vv = vv(d1);
        tv::th(&mut e.threads, 0).operation = Some(crate::rt::object::verif::op(idx, crate::rt::object::Action::Atomic(av::action(k0))));
        tv::th(&mut e.threads, 1).operation = Some(crate::rt::object::verif::op(idx, crate::rt::object::Action::Atomic(av::action(k1))));

        let switched = e.schedule();

        assert!(!switched);
        // reference: a load depends on the last non-load access, everything else on the last access
        let dep1 = if k1 == 0 { if has_nl { Some(a_nl) } else { None } } else { Some(a_any) };
        let race1 = match dep1 { Some(c) => !le(&c, &d1), None => false };
        // thread 1's state at decision 0: Pending iff a backtrack point was requested for it
        assert!(crate::rt::path::verif::thread_code_at(&e.path, 0, 1) == if race1 { 3 } else { 1 });
        assert!(crate::rt::path::verif::thread_code_at(&e.path, 0, 0) == 4);
        // the chosen thread (0) absorbs its dependence and ticks
        let dep0 = if k0 == 0 { if has_nl { Some(a_nl) } else { None } } else { Some(a_any) };
        let mut exp = match dep0 { Some(c) => max_raw(&d0, &c), None => d0 };
        exp[0] += 1;
        let now0 = vv_raw(&tv::th_ref(&e.threads, 0).dpor_vv);
        assert!(le(&now0, &exp) && le(&exp, &now0));
        let now1 = vv_raw(&tv::th_ref(&e.threads, 1).dpor_vv);
        assert!(le(&now1, &d1) && le(&d1, &now1));
        // ... and is recorded as the last access, at the decision just taken (index 1)
        let (la, lnl) = av::accesses(r.get(&e.objects));
        assert!(la.is_some() && la.unwrap().0 == 1 && le(&la.unwrap().1, &exp) && le(&exp, &la.unwrap().1));
        if k0 == 0 {
            assert!(lnl.map(|x| x.0) == if has_nl { Some(0) } else { None });
        } else {
            assert!(lnl.is_some() && lnl.unwrap().0 == 1);
        }
        kani::cover!(race1 && k1 == 0, "a pending load races with an earlier store");
        kani::cover!(!race1 && dep1.is_some(), "dependent but ordered: no backtrack point");
        kani::cover!(k0 == 0 && k1 == 0 && !has_nl, "two loads: independent");
        std::mem::forget(e);
    }
}
