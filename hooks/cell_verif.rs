// harnesses for cell (included into loom under cfg(loom_verif))
