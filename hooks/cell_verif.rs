// crate::rt::cell::verif -- C04: race predicates of UnsafeCell tracking on
// fully symbolic vector clocks.
#![allow(dead_code, unused_imports)]

use super::*;
use crate::rt::thread::verif as tv;
use crate::rt::verif::{le, max_raw, panics_iff, vharness, vv, vv_raw};
#[cfg(not(kani))]
use crate::rt::verif::kani_shim as kani;
use crate::rt::MAX_THREADS;

fn mk_state(read: [u16; MAX_THREADS], write: [u16; MAX_THREADS]) -> State {
    State {
        created_location: Location::disabled(),
        is_reading: 0,
        is_writing: false,
        read_access: vv(read),
        read_locations: LocationSet::new(),
        write_access: vv(write),
        write_locations: LocationSet::new(),
    }
}

fn read_case(active: usize) {
    let mut set = tv::mk_set(3);
    tv::activate(&mut set, active);
    let cur: [u16; MAX_THREADS] = kani::any();
    let read: [u16; MAX_THREADS] = kani::any();
    let write: [u16; MAX_THREADS] = kani::any();
    tv::th(&mut set, active).causality = vv(cur);
    let mut st = mk_state(read, write);
    // reference: a read races with the recorded writes unless they all
    // happen-before the reader
    let must = !le(&write, &cur);
    kani::cover!(must, "racing read");
    kani::cover!(!must && !le(&read, &cur), "ordered after writes, concurrent with other reads");
    if panics_iff(must, || st.track_read(&set)).is_some() {
        assert!(vv_raw(&st.read_access) == max_raw(&read, &cur));
        assert!(vv_raw(&st.write_access) == write);
    }
    std::mem::forget(set);
}

fn write_case(active: usize) {
    let mut set = tv::mk_set(3);
    tv::activate(&mut set, active);
    let cur: [u16; MAX_THREADS] = kani::any();
    let read: [u16; MAX_THREADS] = kani::any();
    let write: [u16; MAX_THREADS] = kani::any();
    tv::th(&mut set, active).causality = vv(cur);
    let mut st = mk_state(read, write);
    let must = !le(&write, &cur) || !le(&read, &cur);
    kani::cover!(!le(&write, &cur) && le(&read, &cur), "write/write race only");
    kani::cover!(le(&write, &cur) && !le(&read, &cur), "read/write race only");
    kani::cover!(!must, "ordered write");
    if panics_iff(must, || st.track_write(&set)).is_some() {
        assert!(vv_raw(&st.write_access) == max_raw(&write, &cur));
        assert!(vv_raw(&st.read_access) == read);
    }
    std::mem::forget(set);
}

vharness! {
    /// @prop C04 @tier quick @mode full @funcs cell::State::track_read,VersionVec::ahead,VersionVec::join @bounds all clock values (3 x 5 x u16), active thread 0
    /// track_read panics iff the recorded writes are not all happens-before the reader; on return read_access is the join.
    fn cell_track_read_iff_t0() { read_case(0) }
}

vharness! {
    /// @prop C04 @tier quick @mode full @funcs cell::State::track_read @bounds all clock values, active thread 2
    /// same as cell_track_read_iff_t0 with a non-initial active thread.
    fn cell_track_read_iff_t2() { read_case(2) }
}

vharness! {
    /// @prop C04 @tier quick @mode full @funcs cell::State::track_write,VersionVec::ahead,VersionVec::join @bounds all clock values (3 x 5 x u16), active thread 0
    /// track_write panics iff some recorded read or write is not happens-before the writer; on return write_access is the join.
    fn cell_track_write_iff_t0() { write_case(0) }
}

vharness! {
    /// @prop C04 @tier quick @mode full @funcs cell::State::track_write @bounds all clock values, active thread 1
    /// same as cell_track_write_iff_t0 with a non-initial active thread.
    fn cell_track_write_iff_t1() { write_case(1) }
}
