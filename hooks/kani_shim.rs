// Native stand-in for the `kani` crate, used ONLY to replay a counterexample
// (cfg(loom_verif) && !cfg(kani)).  `any()` pops the concrete byte vectors
// that Kani's concrete playback printed, in order, from the file named by
// the environment variable VERIF_REPLAY_FILE (one line per value:
// comma-separated decimal bytes).
#![allow(dead_code)]

use std::cell::RefCell;

thread_local! {
    static VALUES: RefCell<Option<std::collections::VecDeque<Vec<u8>>>> = RefCell::new(None);
}

fn load() -> std::collections::VecDeque<Vec<u8>> {
    let path = std::env::var("VERIF_REPLAY_FILE").expect("VERIF_REPLAY_FILE not set");
    let text = std::fs::read_to_string(path).expect("cannot read replay file");
    let mut q = std::collections::VecDeque::new();
    for line in text.lines() {
        let line = line.trim();
        if line.starts_with('#') {
            continue;
        }
        if line.is_empty() {
            q.push_back(Vec::new());
            continue;
        }
        q.push_back(
            line.split(',')
                .map(|b| b.trim().parse::<u8>().expect("bad byte"))
                .collect(),
        );
    }
    q
}

fn pop(n: usize) -> Vec<u8> {
    VALUES.with(|v| {
        let mut v = v.borrow_mut();
        if v.is_none() {
            *v = Some(load());
        }
        let q = v.as_mut().unwrap();
        match q.pop_front() {
            Some(bytes) => {
                assert_eq!(bytes.len(), n, "VERIF_REPLAY_MISMATCH: value width");
                bytes
            }
            // Values CBMC did not need to fix are absent from the trace: zero.
            None => vec![0u8; n],
        }
    })
}

pub(crate) trait Arbitrary: Sized {
    fn any() -> Self;
    // Kani's concrete playback records one value per array element.
    fn any_array<const N: usize>() -> [Self; N] {
        [(); N].map(|_| Self::any())
    }
}

macro_rules! prim {
    ($($t:ty),*) => {$(
        impl Arbitrary for $t {
            fn any() -> $t {
                let b = pop(std::mem::size_of::<$t>());
                let mut a = [0u8; std::mem::size_of::<$t>()];
                a.copy_from_slice(&b);
                <$t>::from_le_bytes(a)
            }
        }
    )*};
}
prim!(u8, u16, u32, u64, u128, usize, i8, i16, i32, i64, i128, isize);

impl Arbitrary for bool {
    fn any() -> bool {
        let b = u8::any();
        assume(b < 2);
        b == 1
    }
}

impl<T: Arbitrary, const N: usize> Arbitrary for [T; N] {
    fn any() -> [T; N] {
        T::any_array::<N>()
    }
}

pub(crate) fn any<T: Arbitrary>() -> T {
    T::any()
}

pub(crate) fn assume(cond: bool) {
    if !cond {
        // A replayed counterexample must satisfy every assumption.
        panic!("VERIF_REPLAY_ASSUME_FAILED");
    }
}

macro_rules! cover {
    ($($t:tt)*) => {};
}
pub(crate) use cover;
