// crate::rt::verif -- common infrastructure for the solver harnesses.
//
// Included into loom as a child module of `rt` under `--cfg loom_verif`.
// Holds: Kani stubs (part of every claim, see DESIGN.md 2.3), the native
// `kani` shim used only when a counterexample is replayed, the harness
// declaration macro, and the reference models (oracles).
#![allow(dead_code, unused_imports, unused_macros)]

#[cfg(not(kani))]
#[path = "/verif/hooks/kani_shim.rs"]
pub(crate) mod kani_shim;

#[path = "/verif/hooks/reference.rs"]
pub(crate) mod reference;

/// Declares a proof harness.
///
/// Under Kani: `#[kani::proof]` plus the stubs every harness needs.
/// Natively with `--cfg loom_verif_replay`: a `#[test]` that replays the
/// concrete values recorded from a counterexample (see kani_shim.rs).
macro_rules! vharness {
    ($(#[$m:meta])* fn $name:ident() $body:block) => {
        #[cfg_attr(kani, kani::proof)]
        #[cfg_attr(kani, kani::stub(tracing::dispatcher::get_default, crate::rt::verif::stubs::get_default))]
        #[cfg_attr(kani, kani::stub(tracing::callsite::DefaultCallsite::interest, crate::rt::verif::stubs::interest))]
        #[cfg_attr(kani, kani::stub(std::hash::RandomState::new, crate::rt::verif::stubs::random_state_new))]
        #[cfg_attr(kani, kani::stub(crate::rt::location::PanicBuilder::fire, crate::rt::verif::stubs::fire))]
        #[cfg_attr(kani, kani::stub(std::io::_eprint, crate::rt::verif::stubs::eprint))]
        #[cfg_attr(all(not(kani), loom_verif_replay), test)]
        $(#[$m])*
        pub(crate) fn $name() $body
    };
}
pub(crate) use vharness;

pub(crate) mod stubs {
    //! Replacement bodies for code Kani cannot (or should not) execute.

    /// `tracing_core::dispatcher::get_default`: the real body trips a Kani
    /// compiler ICE; no loom decision depends on the dispatcher.
    pub(crate) fn get_default<T, F>(mut f: F) -> T
    where
        F: FnMut(&tracing::Dispatch) -> T,
    {
        let d = tracing::Dispatch::none();
        f(&d)
    }

    /// Callsite interest: never enabled => `trace!`/`info_span!` are no-ops.
    pub(crate) fn interest(_cs: &'static tracing::callsite::DefaultCallsite) -> tracing::subscriber::Interest {
        tracing::subscriber::Interest::never()
    }

    /// `RandomState::new` reads OS randomness; fixed keys instead.
    pub(crate) fn random_state_new() -> std::hash::RandomState {
        unsafe { std::mem::transmute::<[u64; 2], std::hash::RandomState>([0u64; 2]) }
    }

    /// `PanicBuilder::fire` formats a message through `String`/`format!`;
    /// only the fact that it panics is modelled.  The harness arms an
    /// expectation first (see `panics_iff`): a race report the reference
    /// forbids is an assertion failure, an expected one ends the path exactly
    /// as the unwinding panic would.
    pub(crate) fn fire(_b: &crate::rt::location::PanicBuilder) {
        let e = EXPECT_FIRE.with(|c| c.get());
        assert!(
            e != 2,
            "VERIF: causality violation reported although the reference orders the accesses"
        );
        #[cfg(kani)]
        if e == 1 {
            kani::assume(false);
        }
        panic!("VERIF_FIRE: causality violation outside an armed expectation");
    }

    thread_local! {
        /// 0 = unarmed, 1 = the reference requires the report, 2 = forbids it
        pub(crate) static EXPECT_FIRE: std::cell::Cell<u8> = std::cell::Cell::new(0);
    }

    /// `Vec::clear` / `Vec::truncate` without running the elements' drop glue
    /// (used only by the C16 harnesses: dropping a `Thread` walks hashbrown's
    /// SIMD group scan for its thread-local map, which is intractable here;
    /// what `clear` does to the *set* is kept, destructors are not modelled).
    #[cfg(kani)]
    pub(crate) fn vec_clear_no_drop<T, A: std::alloc::Allocator>(v: &mut Vec<T, A>) {
        unsafe { v.set_len(0) }
    }

    #[cfg(kani)]
    pub(crate) fn vec_truncate_no_drop<T, A: std::alloc::Allocator>(v: &mut Vec<T, A>, len: usize) {
        if len < v.len() {
            unsafe { v.set_len(len) }
        }
    }

    /// `dbg!` in rt/mutex.rs, rwlock.rs, mpsc.rs, notify.rs prints through
    /// `std::io::_eprint`; output is irrelevant.
    pub(crate) fn eprint(_args: std::fmt::Arguments<'_>) {}
}

/// Builds a VersionVec from raw components (harness-side constructor).
pub(crate) fn vv(raw: [u16; super::MAX_THREADS]) -> super::VersionVec {
    super::vv::verif::from_raw(raw)
}

/// Reads the raw components of a VersionVec.
pub(crate) fn vv_raw(v: &super::VersionVec) -> [u16; super::MAX_THREADS] {
    super::vv::verif::raw(v)
}

/// Component-wise `a <= b`, written independently of `VersionVec::partial_cmp`.
pub(crate) fn le(a: &[u16; super::MAX_THREADS], b: &[u16; super::MAX_THREADS]) -> bool {
    let mut i = 0;
    let mut ok = true;
    while i < super::MAX_THREADS {
        if a[i] > b[i] {
            ok = false;
        }
        i += 1;
    }
    ok
}

pub(crate) fn max_raw(
    a: &[u16; super::MAX_THREADS],
    b: &[u16; super::MAX_THREADS],
) -> [u16; super::MAX_THREADS] {
    let mut r = [0u16; super::MAX_THREADS];
    let mut i = 0;
    while i < super::MAX_THREADS {
        r[i] = if a[i] > b[i] { a[i] } else { b[i] };
        i += 1;
    }
    r
}

/// Runs `f`, which may end in loom's causality-violation panic, and checks
/// that it does so if and only if `must` (the reference's verdict).
/// Returns None when the (expected) panic happened natively; under Kani an
/// expected panic simply ends the path.
pub(crate) fn panics_iff<R>(must: bool, f: impl FnOnce() -> R) -> Option<R> {
    #[cfg(kani)]
    {
        stubs::EXPECT_FIRE.with(|c| c.set(if must { 1 } else { 2 }));
        let r = f();
        stubs::EXPECT_FIRE.with(|c| c.set(0));
        assert!(
            !must,
            "VERIF: returned normally although the reference requires a causality-violation panic"
        );
        Some(r)
    }
    #[cfg(not(kani))]
    {
        match std::panic::catch_unwind(std::panic::AssertUnwindSafe(f)) {
            Ok(r) => {
                assert!(
                    !must,
                    "VERIF: returned normally although the reference requires a causality-violation panic"
                );
                Some(r)
            }
            Err(_) => {
                assert!(
                    must,
                    "VERIF: causality violation reported although the reference orders the accesses"
                );
                None
            }
        }
    }
}

// Re-exports for harnesses that live outside `rt` (sync::atomic::verif).
pub(crate) fn mk_exec(n: usize, max_branches: usize, preemption_bound: Option<usize>) -> super::Execution {
    super::execution::verif::mk_exec(n, max_branches, preemption_bound)
}

pub(crate) fn mk_exec_caps(n: usize, path_cap: usize, obj_cap: usize) -> super::Execution {
    super::execution::verif::mk_exec_caps(n, path_cap, obj_cap)
}

pub(crate) fn enter<R>(e: &mut super::Execution, f: impl FnOnce() -> R) -> R {
    super::scheduler::verif::enter(e, f)
}
