// crate::rt::atomic::verif -- harnesses on the per-atomic store ring.
//
// (I) one-step instances: the ring (up to LIVE live stores), every clock and
// the acting thread's view are symbolic, constrained by the representation
// invariant `assume_inv`; one real operation runs; the lemma is asserted.
#![allow(dead_code, unused_imports)]

use super::*;
use crate::rt::synchronize::verif as sv;
use crate::rt::thread::verif as tv;
use crate::rt::verif::{le, max_raw, panics_iff, vharness, vv, vv_raw};
#[cfg(not(kani))]
use crate::rt::verif::kani_shim as kani;

type Raw = [u16; MAX_THREADS];

/// Number of live stores in a symbolic ring (slots >= LIVE are default).
const LIVE: usize = 3;
/// Threads whose clock components are symbolic.
const NT: usize = 3;

/// element-wise equality (array `==` is a memcmp loop of 10 iterations)
fn eq(a: &Raw, b: &Raw) -> bool {
    le(a, b) && le(b, a)
}

fn lt(a: &Raw, b: &Raw) -> bool {
    le(a, b) && !le(b, a)
}

// ---------------------------------------------------------------- builders

fn blank_state() -> State {
    State {
        created_location: Location::disabled(),
        loaded_at: VersionVec::new(),
        loaded_locations: LocationSet::new(),
        unsync_loaded_at: VersionVec::new(),
        unsync_loaded_locations: LocationSet::new(),
        stored_at: VersionVec::new(),
        stored_locations: LocationSet::new(),
        unsync_mut_at: VersionVec::new(),
        unsync_mut_locations: LocationSet::new(),
        is_mutating: false,
        last_access: None,
        last_non_load_access: None,
        stores: Default::default(),
        cnt: 0,
    }
}

/// Clock with symbolic components for the first NT threads, zero elsewhere.
fn any_clock() -> Raw {
    let mut r = [0u16; MAX_THREADS];
    let mut i = 0;
    while i < NT {
        r[i] = kani::any();
        i += 1;
    }
    r
}

/// first_seen table: symbolic for the first NT threads, "never" elsewhere.
fn any_first_seen() -> Raw {
    let mut r = [u16::MAX; MAX_THREADS];
    let mut i = 0;
    while i < NT {
        r[i] = kani::any();
        i += 1;
    }
    r
}

/// A ring with `cnt` (1..=LIVE) live stores with symbolic contents.  The ring
/// length is concrete per harness instance: with a symbolic length CBMC 6.11
/// produced a counterexample for `State::store` (whole-array update through a
/// symbolic slot index) that does not reproduce natively, so the length is
/// instantiated by the harness instead of being left to the solver.
fn any_state(cnt: usize) -> State {
    let mut st = blank_state();
    st.cnt = cnt as u16;
    let mut i = 0;
    while i < cnt {
        st.stores[i] = Store {
            value: kani::any(),
            happens_before: vv(any_clock()),
            modification_order: vv(any_clock()),
            sync: sv::mk(any_clock()),
            first_seen: FirstSeen(any_first_seen()),
            seq_cst: kani::any(),
        };
        i += 1;
    }
    st
}

/// Thread set with NT threads, `active` running, symbolic clocks for all.
fn any_threads(active: usize) -> thread::Set {
    let mut set = tv::mk_set(NT);
    tv::activate(&mut set, active);
    let mut i = 0;
    while i < NT {
        tv::th(&mut set, i).causality = vv(any_clock());
        tv::th(&mut set, i).released = vv(any_clock());
        i += 1;
    }
    set
}

fn live(st: &State, i: usize) -> bool {
    i < st.cnt as usize && i < MAX_ATOMIC_HISTORY
}

fn mo(st: &State, i: usize) -> Raw {
    vv_raw(&st.stores[i].modification_order)
}

fn hb(st: &State, i: usize) -> Raw {
    vv_raw(&st.stores[i].happens_before)
}

/// Representation invariant of reachable rings (each clause is preserved by
/// store/load/rmw; see the `*_preserves_inv` assertions):
///  * distinct live stores have distinct modification-order clocks (loom's own
///    `assert_ne!`),
///  * a store's happens_before is below its modification_order,
///  * a thread's component in any recorded clock never exceeds that thread's
///    own current component (clocks only record the past),
///  * first_seen[t] is "never" or a past version of thread t.
fn assume_inv(st: &State, set: &thread::Set) {
    let mut own = [0u16; MAX_THREADS];
    let mut t = 0;
    while t < NT {
        own[t] = vv_raw(&tv::th_ref(set, t).causality)[t];
        t += 1;
    }
    // every thread's view of another thread is in that thread's past
    let mut t = 0;
    while t < NT {
        kani::assume(le(&vv_raw(&tv::th_ref(set, t).causality), &own));
        kani::assume(le(&vv_raw(&tv::th_ref(set, t).released), &vv_raw(&tv::th_ref(set, t).causality)));
        t += 1;
    }
    let mut i = 0;
    while i < LIVE {
        if live(st, i) {
            kani::assume(le(&hb(st, i), &mo(st, i)));
            kani::assume(le(&mo(st, i), &own));
            kani::assume(le(&sv::raw(&st.stores[i].sync), &own));
            let mut t = 0;
            while t < NT {
                let fs = st.stores[i].first_seen.0[t];
                kani::assume(fs == u16::MAX || fs <= own[t]);
                t += 1;
            }
            let mut j = 0;
            while j < LIVE {
                if j != i && live(st, j) {
                    kani::assume(!eq(&mo(st, i), &mo(st, j)));
                }
                j += 1;
            }
        }
        i += 1;
    }
}

// ------------------------------------------------------- reference predicates

/// "store i has been observed by an event in cur's past": some thread k
/// touched it at a version that cur has already seen.
fn ref_seen(fs: &Raw, cur: &Raw) -> bool {
    let mut k = 0;
    let mut r = false;
    while k < MAX_THREADS {
        if fs[k] != u16::MAX && fs[k] <= cur[k] {
            r = true;
        }
        k += 1;
    }
    r
}

fn ref_seen_before_yield(fs: &Raw, me: usize, last_yield: Option<u16>) -> bool {
    match last_yield {
        None => false,
        Some(y) => fs[me] != u16::MAX && fs[me] <= y,
    }
}

/// Reference candidate set of a load: store i is withheld iff a
/// modification-order-later store j exists and (j is already visible to the
/// reader [coherence]  or  i was seen by the reader before its last yield
/// [yield rule]  or  the load and both stores are SeqCst [documented SeqCst
/// rule]); nothing else.  (Proved equal to `match_load_to_stores` by the
/// atomic_match_load_* harnesses.)
fn ref_candidates(st: &State, cnt: usize, cur: &Raw, me: usize, ly: Option<u16>, seqcst_load: bool) -> [bool; LIVE] {
    let mut expect = [false; LIVE];
    let mut i = 0;
    while i < cnt {
        let mut excluded = false;
        let mut j = 0;
        while j < cnt {
            if j != i && lt(&mo(st, i), &mo(st, j)) {
                if ref_seen(&st.stores[j].first_seen.0, cur)
                    || ref_seen_before_yield(&st.stores[i].first_seen.0, me, ly)
                    || (seqcst_load && st.stores[i].seq_cst && st.stores[j].seq_cst)
                {
                    excluded = true;
                }
            }
            j += 1;
        }
        expect[i] = !excluded;
        i += 1;
    }
    expect
}

// ------------------------------------------------------------ C04 predicates

fn track_case(kind: u8, active: usize) {
    let mut set = tv::mk_set(3);
    tv::activate(&mut set, active);
    let cur: Raw = kani::any();
    tv::th(&mut set, active).causality = vv(cur);
    let loaded: Raw = kani::any();
    let unsync_loaded: Raw = kani::any();
    let stored: Raw = kani::any();
    let unsync_mut: Raw = kani::any();
    let mut st = blank_state();
    st.loaded_at = vv(loaded);
    st.unsync_loaded_at = vv(unsync_loaded);
    st.stored_at = vv(stored);
    st.unsync_mut_at = vv(unsync_mut);
    // reference: which recorded accesses conflict with this kind of access
    //   atomic load      vs unsynchronised mutation
    //   unsync_load      vs unsynchronised mutation, atomic store
    //   atomic store     vs unsynchronised mutation, unsync_load
    //   with_mut         vs everything
    let c_mut = !le(&unsync_mut, &cur);
    let c_store = !le(&stored, &cur);
    let c_uload = !le(&unsync_loaded, &cur);
    let c_load = !le(&loaded, &cur);
    let must = match kind {
        0 => c_mut,
        1 => c_mut || c_store,
        2 => c_mut || c_uload,
        _ => c_mut || c_store || c_uload || c_load,
    };
    kani::cover!(must, "race");
    if kind < 3 {
        kani::cover!(!must && !(le(&loaded, &cur) && le(&stored, &cur) && le(&unsync_loaded, &cur)), "no race although some non-conflicting access is concurrent");
    } else {
        kani::cover!(!must, "with_mut ordered after every recorded access");
    }
    let r = panics_iff(must, || match kind {
        0 => st.track_load(&set),
        1 => st.track_unsync_load(&set),
        2 => st.track_store(&set),
        _ => st.track_unsync_mut(&set),
    });
    if r.is_some() {
        let e_loaded = if kind == 0 { max_raw(&loaded, &cur) } else { loaded };
        let e_uloaded = if kind == 1 { max_raw(&unsync_loaded, &cur) } else { unsync_loaded };
        let e_stored = if kind == 2 { max_raw(&stored, &cur) } else { stored };
        let e_mut = if kind == 3 { max_raw(&unsync_mut, &cur) } else { unsync_mut };
        assert!(vv_raw(&st.loaded_at) == e_loaded);
        assert!(vv_raw(&st.unsync_loaded_at) == e_uloaded);
        assert!(vv_raw(&st.stored_at) == e_stored);
        assert!(vv_raw(&st.unsync_mut_at) == e_mut);
    }
    std::mem::forget(set);
}

vharness! {
    /// @prop C04 @tier quick @mode full @funcs atomic::State::track_load @bounds all clock values (5 clocks x 5 x u16), active thread 1
    /// an atomic load is reported iff an unsynchronised mutation is not happens-before it; loaded_at becomes the join.
    fn atomic_track_load_iff() { track_case(0, 1) }
}

vharness! {
    /// @prop C04 @tier quick @mode full @funcs atomic::State::track_unsync_load @bounds all clock values, active thread 0
    /// unsync_load is reported iff a with_mut or an atomic store is not happens-before it (atomic loads do not conflict).
    fn atomic_track_unsync_load_iff() { track_case(1, 0) }
}

vharness! {
    /// @prop C04 @tier quick @mode full @funcs atomic::State::track_store @bounds all clock values, active thread 2
    /// an atomic store is reported iff a with_mut or an unsync_load is not happens-before it (atomic loads/stores do not conflict).
    fn atomic_track_store_iff() { track_case(2, 2) }
}

vharness! {
    /// @prop C04 @tier quick @mode full @funcs atomic::State::track_unsync_mut @bounds all clock values, active thread 1
    /// with_mut is reported iff any recorded access of any kind is not happens-before it.
    fn atomic_track_unsync_mut_iff() { track_case(3, 1) }
}

// ------------------------------------------------- candidate selection (C02/C03/C18)

fn match_load_case(active: usize, with_yield: bool, cnt: usize) {
    let mut set = any_threads(active);
    let st = any_state(cnt);
    assume_inv(&st, &set);
    let ly: Option<u16> = if with_yield {
        let y: u16 = kani::any();
        kani::assume(y <= vv_raw(&tv::th_ref(&set, active).causality)[active]);
        Some(y)
    } else {
        None
    };
    tv::th(&mut set, active).last_yield = ly;
    let code: u8 = kani::any();
    kani::assume(code == 0 || code == 2 || code == 4); // Relaxed, Acquire, SeqCst loads
    let cur = vv_raw(&tv::th_ref(&set, active).causality);

    let mut dst = [0u8; MAX_ATOMIC_HISTORY];
    let n = st.match_load_to_stores(&set, &mut dst[..], sv::ordering(code));

    let expect = ref_candidates(&st, cnt, &cur, active, ly, code == 4);
    let mut any_maximal = false;
    let mut i = 0;
    while i < cnt {
        let mut maximal = true;
        let mut j = 0;
        while j < cnt {
            if j != i && lt(&mo(&st, i), &mo(&st, j)) {
                maximal = false;
            }
            j += 1;
        }
        if maximal {
            any_maximal = true;
            // modification-order-maximal stores are always offered (C18: the
            // yield rule can never empty the candidate set)
            assert!(expect[i]);
        }
        i += 1;
    }
    assert!(any_maximal);
    assert!(n >= 1 && n <= LIVE);
    // the returned list is exactly the expected set, ascending, no duplicates
    let mut k = 0;
    let mut idx = 0;
    while idx < LIVE {
        if expect[idx] {
            assert!(k < n && dst[k] as usize == idx);
            k += 1;
        }
        idx += 1;
    }
    assert!(k == n);
    kani::cover!(n == 1, "all but one store withheld");
    kani::cover!(n == cnt, "every live store offered (stale reads)");
    if with_yield {
        kani::cover!(n < cnt && code == 0, "pruned with a yield recorded");
    } else {
        kani::cover!(code == 4 && n + 1 == cnt, "SeqCst load, one store withheld");
    }
    std::mem::forget(set);
}

vharness! {
    /// @prop C02,C03 @tier quick @mode full @funcs atomic::State::match_load_to_stores,FirstSeen::is_seen_by_current,FirstSeen::is_seen_before_yield,VersionVec::partial_cmp @bounds ring of 3 live stores with symbolic clocks over 3 threads (u16 components), orderings Relaxed/Acquire/SeqCst, reader = thread 1, no yield recorded
    /// the candidate list of a load is exactly: every live store except those with a modification-order-later store that is already visible to the reader, or (SeqCst load) both SeqCst; never empty.
    fn atomic_match_load_exact_t1() { match_load_case(1, false, 3) }
}

vharness! {
    /// @prop C02,C03 @tier quick @mode full @funcs atomic::State::match_load_to_stores @bounds ring of 2 live stores, otherwise as atomic_match_load_exact_t1, reader = thread 0
    /// candidate-list lemma for the initial thread as reader.
    fn atomic_match_load_exact_t0() { match_load_case(0, false, 2) }
}

vharness! {
    /// @prop C18,C02 @tier quick @mode full @funcs atomic::State::match_load_to_stores,FirstSeen::is_seen_before_yield @bounds ring of 3 live stores, symbolic last_yield <= reader's version, reader = thread 2
    /// with a yield recorded: a store is additionally withheld only if the reader saw it before its last yield and a modification-order-later store exists; maximal stores are never withheld, the list is never empty.
    fn atomic_match_load_yield_t2() { match_load_case(2, true, 3) }
}

vharness! {
    /// @prop C03,C02 @tier quick @mode full @funcs atomic::State::match_rmw_to_stores @bounds ring of 3 live stores with symbolic clocks
    /// an RMW may read exactly the modification-order-maximal stores (atomicity: never a store that has a successor).
    fn atomic_match_rmw_exact() {
        let set = any_threads(1);
        let st = any_state(3);
        assume_inv(&st, &set);
        let mut dst = [0u8; MAX_ATOMIC_HISTORY];
        let n = st.match_rmw_to_stores(&mut dst[..]);
        let mut k = 0;
        let mut i = 0;
        while i < LIVE {
            if live(&st, i) {
                let mut maximal = true;
                let mut j = 0;
                while j < LIVE {
                    if j != i && live(&st, j) && lt(&mo(&st, i), &mo(&st, j)) {
                        maximal = false;
                    }
                    j += 1;
                }
                if maximal {
                    assert!(k < n && dst[k] as usize == i);
                    k += 1;
                }
            }
            i += 1;
        }
        assert!(k == n && n >= 1);
        kani::cover!(n == 2, "two incomparable maximal stores");
        kani::cover!(n == 1 && st.cnt == 3, "chain");
        std::mem::forget(set);
    }
}

// ------------------------------------------------------------ store (C03 CoWW/CoRW)

fn store_case(active: usize, cnt: usize) {
    let mut set = any_threads(active);
    let mut st = any_state(cnt);
    assume_inv(&st, &set);
    // rt::synchronize bumps the writer's own component before the operation
    kani::assume(vv_raw(&tv::th_ref(&set, active).causality)[active] < u16::MAX - 1);
    set.active_causality_inc();
    let cur = vv_raw(&tv::th_ref(&set, active).causality);
    let rel = vv_raw(&tv::th_ref(&set, active).released);
    let code: u8 = kani::any();
    kani::assume(code == 0 || code == 1 || code == 4); // Relaxed, Release, SeqCst stores
    let value: u64 = kani::any();
    let old_cnt = st.cnt as usize;
    // snapshot
    let mut old_mo = [[0u16; MAX_THREADS]; LIVE];
    let mut old_fs = [[0u16; MAX_THREADS]; LIVE];
    let mut i = 0;
    while i < LIVE {
        old_mo[i] = mo(&st, i);
        old_fs[i] = st.stores[i].first_seen.0;
        i += 1;
    }

    st.store(&mut set, Synchronize::new(), value, sv::ordering(code));

    assert!(st.cnt as usize == old_cnt + 1);
    let n = old_cnt; // new slot (no wrap-around inside the bound)
    assert!(st.stores[n].value == value);
    assert!(hb(&st, n) == cur);
    // CoWW: everything the writer knows is ordered before the new store
    assert!(le(&cur, &mo(&st, n)));
    // CoRW + CoWW on stores: every older store visible to the writer is
    // modification-ordered before the new one; nothing else is
    let mut expect_mo = cur;
    let mut i = 0;
    while i < LIVE {
        if i < old_cnt {
            if ref_seen(&old_fs[i], &cur) {
                assert!(le(&old_mo[i], &mo(&st, n)));
                expect_mo = max_raw(&expect_mo, &old_mo[i]);
            }
            // older stores are untouched
            assert!(mo(&st, i) == old_mo[i]);
            assert!(st.stores[i].first_seen.0 == old_fs[i]);
            // the new store is distinct from and never ordered before an older one
            assert!(mo(&st, n) != old_mo[i]);
            assert!(!lt(&mo(&st, n), &old_mo[i]));
        }
        i += 1;
    }
    assert!(mo(&st, n) == expect_mo);
    // release view carried by the store
    let releases = code == 1 || code == 4;
    let expect_sync = if releases { max_raw(&rel, &cur) } else { rel };
    assert!(sv::raw(&st.stores[n].sync) == expect_sync);
    assert!(st.stores[n].seq_cst == (code == 4));
    // only the writer has seen the new store, at its current version
    let mut t = 0;
    while t < MAX_THREADS {
        if t == active {
            assert!(st.stores[n].first_seen.0[t] == cur[active]);
        } else {
            assert!(st.stores[n].first_seen.0[t] == u16::MAX);
        }
        t += 1;
    }
    // the writer's own view does not change
    assert!(vv_raw(&tv::th_ref(&set, active).causality) == cur);
    kani::cover!(!le(&old_mo[0], &cur) && ref_seen(&old_fs[0], &cur), "a store read earlier (not hb) is ordered before the new store");
    kani::cover!(!ref_seen(&old_fs[1], &cur), "a concurrent older store stays unordered");
    std::mem::forget(set);
}

vharness! {
    /// @prop C03 @tier quick @mode full @funcs atomic::State::store,FirstSeen::touch,FirstSeen::is_seen_by_current,Synchronize::sync_store,Set::active_causality_inc @bounds ring of 2 live stores before the store, symbolic clocks over 3 threads, orderings Relaxed/Release/SeqCst, writer = thread 1
    /// after a store: its modification-order clock is exactly the writer's view joined with every older store visible to the writer (write-write and read-write coherence), older stores are untouched, the representation invariant is preserved.
    fn atomic_store_lemma_t1() { store_case(1, 2) }
}

vharness! {
    /// @prop C03 @tier thorough @mode full @funcs atomic::State::store @bounds ring of 3 live stores before the store, otherwise as atomic_store_lemma_t1, writer = thread 0
    /// store lemma for the initial thread.
    fn atomic_store_lemma_t0() { store_case(0, 3) }
}

// ------------------------------------------------------------ load (C03 CoRR/CoWR, C02)

fn load_case(active: usize, cnt: usize, index: usize) {
    let mut set = any_threads(active);
    let mut st = any_state(cnt);
    assume_inv(&st, &set);
    kani::assume(vv_raw(&tv::th_ref(&set, active).causality)[active] < u16::MAX - 1);
    set.active_causality_inc();
    let cur = vv_raw(&tv::th_ref(&set, active).causality);
    // no unsynchronised mutation is concurrent (race reporting is C04's harness)
    let um = any_clock();
    kani::assume(le(&um, &cur));
    st.unsync_mut_at = vv(um);
    let loaded = any_clock();
    st.loaded_at = vv(loaded);
    let code: u8 = kani::any();
    kani::assume(code == 0 || code == 2 || code == 4);
    // the store read is any candidate the selection offers (reference form of
    // the candidate set; its equality with the real match_load_to_stores is
    // the atomic_match_load_* lemma)
    let offered = ref_candidates(&st, cnt, &cur, active, None, code == 4);
    // (the slot read is concrete per instance, see `any_state`)
    kani::assume(offered[index]);
    let mut n = 0;
    let mut q = 0;
    while q < cnt {
        if offered[q] {
            n += 1;
        }
        q += 1;
    }

    let mut old_mo = [[0u16; MAX_THREADS]; LIVE];
    let mut old_hb = [[0u16; MAX_THREADS]; LIVE];
    let mut old_fs = [[0u16; MAX_THREADS]; LIVE];
    let mut i = 0;
    while i < LIVE {
        old_mo[i] = mo(&st, i);
        old_hb[i] = hb(&st, i);
        old_fs[i] = st.stores[i].first_seen.0;
        i += 1;
    }
    let old_sync = sv::raw(&st.stores[index].sync);
    let old_val = st.stores[index].value;

    let got = st.load(&mut set, index, Location::disabled(), sv::ordering(code));

    assert!(got == old_val);
    assert!(st.cnt as usize == cnt);
    // coherence at the moment of the read: no store already visible to the
    // reader is modification-ordered after the one read (CoRR, CoWR) ...
    let mut i = 0;
    let mut expect_mo = old_mo[index];
    while i < LIVE {
        if i < cnt && i != index {
            let visible = ref_seen(&old_fs[i], &cur);
            if visible {
                assert!(!lt(&old_mo[index], &old_mo[i]));
            }
            // ... and afterwards everything visible / happens-before the
            // reader is ordered before it
            if visible || lt(&old_hb[i], &cur) {
                expect_mo = max_raw(&expect_mo, &old_mo[i]);
                assert!(le(&old_mo[i], &mo(&st, index)));
            }
            assert!(mo(&st, i) == old_mo[i]);
            assert!(st.stores[i].first_seen.0 == old_fs[i]);
        }
        i += 1;
    }
    assert!(mo(&st, index) == expect_mo);
    // the reader is recorded as having seen the store (first time only)
    let mut t = 0;
    while t < MAX_THREADS {
        let e = if t == active && old_fs[index][t] == u16::MAX { cur[active] } else { old_fs[index][t] };
        assert!(st.stores[index].first_seen.0[t] == e);
        t += 1;
    }
    // view transfer: exactly the store's release view, and only for acquire-class loads
    let after = vv_raw(&tv::th_ref(&set, active).causality);
    if code >= 2 {
        assert!(after == max_raw(&cur, &old_sync));
    } else {
        assert!(after == cur);
    }
    assert!(sv::raw(&st.stores[index].sync) == old_sync);
    assert!(vv_raw(&st.loaded_at) == max_raw(&loaded, &cur));
    kani::cover!(n >= 2, "a read among several candidates");
    kani::cover!(code == 2 && !le(&old_sync, &cur), "acquire load learns the release view");
    kani::cover!(code == 0 && !le(&old_sync, &cur), "relaxed load learns nothing");
    std::mem::forget(set);
}

vharness! {
    /// @prop C03,C02 @tier quick @mode full @funcs atomic::State::load,atomic::State::apply_load_coherence,FirstSeen::touch,Synchronize::sync_load,atomic::State::track_load @bounds ring of 3 live stores, slot 1 read, symbolic clocks over 3 threads, orderings Relaxed/Acquire/SeqCst, reader = thread 2
    /// reading an offered store never violates read-read / write-read coherence; afterwards its modification-order clock is joined with exactly the stores visible to or happening-before the reader; the reader's view grows by exactly the store's release view and only for acquire-class orderings.
    fn atomic_load_lemma_c3_i1_t2() { load_case(2, 3, 1) }
}

vharness! {
    /// @prop C03,C02 @tier thorough @mode full @funcs atomic::State::load,atomic::State::apply_load_coherence @bounds ring of 2 live stores, slot 0 read, reader = thread 0, otherwise as atomic_load_lemma_c3_i1_t2
    /// load lemma for the initial thread reading the older slot.
    fn atomic_load_lemma_c2_i0_t0() { load_case(0, 2, 0) }
}

vharness! {
    /// @prop C03,C02 @tier thorough @mode full @funcs atomic::State::load,atomic::State::apply_load_coherence @bounds ring of 3 live stores, slot 0 read, reader = thread 1
    /// load lemma, oldest slot.
    fn atomic_load_lemma_c3_i0_t1() { load_case(1, 3, 0) }
}

vharness! {
    /// @prop C03,C02 @tier thorough @mode full @funcs atomic::State::load,atomic::State::apply_load_coherence @bounds ring of 3 live stores, slot 2 read, reader = thread 0
    /// load lemma, newest slot.
    fn atomic_load_lemma_c3_i2_t0() { load_case(0, 3, 2) }
}

// ------------------------------------------------------------ rmw (C03 atomicity, release sequences)

fn rmw_case(active: usize, cnt: usize, index: usize) {
    let mut set = any_threads(active);
    let mut st = any_state(cnt);
    assume_inv(&st, &set);
    kani::assume(vv_raw(&tv::th_ref(&set, active).causality)[active] < u16::MAX - 1);
    set.active_causality_inc();
    let cur = vv_raw(&tv::th_ref(&set, active).causality);
    let rel = vv_raw(&tv::th_ref(&set, active).released);
    let um = any_clock();
    kani::assume(le(&um, &cur));
    st.unsync_mut_at = vv(um);
    let ul = any_clock();
    kani::assume(le(&ul, &cur));
    st.unsync_loaded_at = vv(ul);
    // the store read must be modification-order-maximal (what match_rmw offers)
    let mut j = 0;
    while j < cnt {
        if j != index {
            kani::assume(!lt(&mo(&st, index), &mo(&st, j)));
        }
        j += 1;
    }
    let succ: u8 = kani::any();
    kani::assume(succ <= 4);
    let fail: u8 = kani::any();
    kani::assume(fail == 0 || fail == 2 || fail == 4);
    let do_write: bool = kani::any();
    let next: u64 = kani::any();

    let old_sync = sv::raw(&st.stores[index].sync);
    let old_val = st.stores[index].value;
    let mut old_mo = [[0u16; MAX_THREADS]; LIVE];
    let mut i = 0;
    while i < LIVE {
        old_mo[i] = mo(&st, i);
        i += 1;
    }

    let r = st.rmw(&mut set, index, Location::disabled(), sv::ordering(succ), sv::ordering(fail), |v| {
        if do_write { Ok(next) } else { Err(v) }
    });

    let after = vv_raw(&tv::th_ref(&set, active).causality);
    if do_write {
        assert!(r == Ok(old_val));
        assert!(st.cnt as usize == cnt + 1);
        let n = cnt;
        assert!(st.stores[n].value == next);
        // atomicity: the new store directly follows the one read -- it is
        // ordered after it and after every other live store that the one read
        // was not ordered before (index was maximal), so nothing can sit between
        assert!(lt(&mo(&st, index), &mo(&st, n)));
        let mut k = 0;
        while k < cnt {
            assert!(!lt(&mo(&st, n), &mo(&st, k)));
            assert!(mo(&st, n) != mo(&st, k));
            k += 1;
        }
        // view transfer of the read half: success ordering
        let acq = succ >= 2;
        let view = if acq { max_raw(&cur, &old_sync) } else { cur };
        assert!(after == view);
        // release sequence: the new store carries the release view of the store
        // read, plus the writer's release-fence view, plus (release-class
        // success ordering) the writer's full view
        let relc = succ == 1 || succ >= 3;
        let mut es = max_raw(&old_sync, &rel);
        if relc {
            es = max_raw(&es, &view);
        }
        assert!(sv::raw(&st.stores[n].sync) == es);
        assert!(hb(&st, n) == view);
        assert!(st.stores[n].seq_cst == (succ == 4));
    } else {
        assert!(r == Err(old_val));
        assert!(st.cnt as usize == cnt);
        let acq = fail >= 2;
        assert!(after == if acq { max_raw(&cur, &old_sync) } else { cur });
    }
    // the store read is marked as seen by the reader; its release view is unchanged
    assert!(st.stores[index].first_seen.0[active] != u16::MAX);
    assert!(sv::raw(&st.stores[index].sync) == old_sync);
    kani::cover!(do_write && succ == 0 && !le(&old_sync, &cur), "relaxed RMW continues a release sequence it does not acquire");
    kani::cover!(do_write && succ == 3, "AcqRel RMW");
    kani::cover!(!do_write && fail == 2 && !le(&old_sync, &cur), "failed CAS with Acquire failure ordering");
    std::mem::forget(set);
}

vharness! {
    /// @prop C03 @tier quick @mode full @funcs atomic::State::rmw,atomic::State::store,atomic::State::apply_load_coherence,atomic::State::track_load,atomic::State::track_store,Synchronize::sync_load,Synchronize::sync_store @bounds ring of 2 live stores, slot 1 read (modification-order-maximal), all success orderings, failure orderings Relaxed/Acquire/SeqCst, symbolic clocks over 3 threads, thread 1
    /// RMW atomicity and release sequences: the new store is ordered directly after the store read and after nothing it should precede; it inherits the read store's release view; the read half transfers the view per success/failure ordering; a failed RMW writes nothing.
    fn atomic_rmw_lemma_c2_i1_t1() { rmw_case(1, 2, 1) }
}

vharness! {
    /// @prop C03 @tier thorough @mode full @funcs atomic::State::rmw @bounds ring of 3 live stores, slot 0 read, thread 2, otherwise as atomic_rmw_lemma_c2_i1_t1
    /// RMW lemma reading an old slot that is still modification-order-maximal (concurrent stores).
    fn atomic_rmw_lemma_c3_i0_t2() { rmw_case(2, 3, 0) }
}

// ------------------------------------------------------------ fences (C02 / C03)

fn fence_case(kind: u8, active: usize) {
    use crate::rt::execution::verif as ev;
    let mut e = ev::mk_exec(NT, 4, None);
    ev::set_threads(&mut e, any_threads(active));
    let seq = any_clock();
    e.threads.seq_cst_causality = vv(seq);
    let a = any_state(2);
    assume_inv(&a, &e.threads);
    kani::assume(vv_raw(&tv::th_ref(&e.threads, active).causality)[active] < u16::MAX - 1);
    let cur0 = vv_raw(&tv::th_ref(&e.threads, active).causality);
    let mut cur = cur0;
    cur[active] += 1; // rt::synchronize bumps the fencing thread's own component
    // reference: an acquire fence synchronises with the release view of exactly
    // the stores that THIS thread read (a load sequenced before the fence)
    let mut acq = cur;
    let mut others_read = false;
    let syncs = [sv::raw(&a.stores[0].sync), sv::raw(&a.stores[1].sync)];
    let fss = [a.stores[0].first_seen.0, a.stores[1].first_seen.0];
    let mut k = 0;
    while k < 2 {
        if fss[k][active] != u16::MAX {
            acq = max_raw(&acq, &syncs[k]);
        } else if ref_seen(&fss[k], &cur) && !le(&syncs[k], &cur) {
            others_read = true;
        }
        k += 1;
    }
    let _ = others_read;
    let before = [
        vv_raw(&tv::th_ref(&e.threads, 0).causality),
        vv_raw(&tv::th_ref(&e.threads, 1).causality),
        vv_raw(&tv::th_ref(&e.threads, 2).causality),
    ];
    let rel0 = vv_raw(&tv::th_ref(&e.threads, active).released);
    let ra = e.objects.insert(a);
    let ord = match kind {
        0 => Ordering::Acquire,
        1 => Ordering::Release,
        2 => Ordering::AcqRel,
        _ => Ordering::SeqCst,
    };

    crate::rt::scheduler::verif::enter(&mut e, || fence(ord));

    let after = vv_raw(&tv::th_ref(&e.threads, active).causality);
    let rel = vv_raw(&tv::th_ref(&e.threads, active).released);
    let seq_after = vv_raw(&e.threads.seq_cst_causality);
    match kind {
        0 => {
            assert!(eq(&after, &acq));
            assert!(eq(&rel, &rel0));
            assert!(eq(&seq_after, &seq));
        }
        1 => {
            assert!(eq(&after, &cur));
            assert!(eq(&rel, &cur));
            assert!(eq(&seq_after, &seq));
        }
        2 => {
            assert!(eq(&after, &acq));
            // the release half publishes everything the acquire half learned
            assert!(eq(&rel, &acq));
            assert!(eq(&seq_after, &seq));
        }
        _ => {
            let full = max_raw(&acq, &seq);
            assert!(eq(&after, &full));
            assert!(eq(&seq_after, &full));
            // released view: at least the acquire-fence view, at most the final view
            assert!(le(&acq, &rel) && le(&rel, &full));
        }
    }
    // nobody else's view changes, no store changes
    let mut t = 0;
    while t < NT {
        if t != active {
            assert!(eq(&vv_raw(&tv::th_ref(&e.threads, t).causality), &before[t]));
        }
        t += 1;
    }
    assert!(eq(&sv::raw(&ra.get(&e.objects).stores[0].sync), &syncs[0]));
    assert!(eq(&sv::raw(&ra.get(&e.objects).stores[1].sync), &syncs[1]));
    if kind != 1 {
        kani::cover!(!le(&acq, &cur), "fence acquires something through a store this thread read");
    } else {
        kani::cover!(!eq(&rel0, &cur), "release fence moves the released view");
    }
    std::mem::forget(e);
}

vharness! {
    /// @prop C02,C03,C04 @tier quick @mode fast @cost 3 @timeout 3600 @funcs rt::fence,rt::synchronize,atomic::fence_acq,atomic::State::stores_mut,FirstSeen::is_seen_by_current,Synchronize::sync_load @bounds 1 atomic with a ring of 2 live stores, symbolic clocks over 3 threads, fencing thread 1, unwind 6
    /// fence(Acquire) joins into the fencing thread exactly the release views of the stores that this thread itself read (no more: C02, no less: C03) and changes nothing else.
    #[cfg_attr(kani, kani::unwind(6))]
    fn fence_acquire_exact_t1() { fence_case(0, 1) }
}

vharness! {
    /// @prop C02,C03,C04 @tier quick @mode fast @cost 2 @timeout 3600 @funcs rt::fence,atomic::fence_rel @bounds as fence_acquire_exact_t1, fencing thread 0
    /// fence(Release) snapshots exactly the thread's current view as its released view and acquires nothing.
    #[cfg_attr(kani, kani::unwind(6))]
    fn fence_release_exact_t0() { fence_case(1, 0) }
}

vharness! {
    /// @prop C02,C03,C04 @tier thorough @mode fast @cost 3 @timeout 3600 @funcs rt::fence,atomic::fence_acqrel,atomic::fence_acq,atomic::fence_rel @bounds as fence_acquire_exact_t1, fencing thread 2
    /// fence(AcqRel): the released view includes everything the acquire half picked up.
    #[cfg_attr(kani, kani::unwind(6))]
    fn fence_acqrel_exact_t2() { fence_case(2, 2) }
}

vharness! {
    /// @prop C02,C03,C04 @tier thorough @mode fast @cost 3 @timeout 3600 @funcs rt::fence,atomic::fence_seqcst,Set::seq_cst_fence @bounds as fence_acquire_exact_t1, fencing thread 1
    /// fence(SeqCst): acquire + release halves plus a two-way join with the global SC-fence view (total order of SC fences).
    #[cfg_attr(kani, kani::unwind(6))]
    fn fence_seqcst_exact_t1() { fence_case(3, 1) }
}

// ------------------------------------------------------------ C01-O4: dependence table

fn any_access(max_path: usize) -> Option<Access> {
    let present: bool = kani::any();
    if present {
        let p: usize = kani::any();
        kani::assume(p < max_path);
        let v: [u16; MAX_THREADS] = kani::any();
        Some(Access::new(p, &vv(v)))
    } else {
        None
    }
}

fn access_view(a: Option<&Access>) -> Option<(usize, Raw)> {
    a.map(|a| (a.path_id(), vv_raw(a.version())))
}

vharness! {
    /// @prop C01 @tier quick @mode full @funcs atomic::State::last_dependent_access,atomic::State::set_last_access,Access::set_or_create @bounds all 3x3 pairs of {load,store,rmw}, arbitrary earlier records, all clock values
    /// dependence table of atomic operations: every pair is dependent except load/load -- after recording access a, the last dependent access of a following b is a unless both are loads, in which case it is unchanged.
    fn atomic_dependence_table() {
        let p: usize = kani::any();
        kani::assume(p >= 1 && p < 1000);
        let mut st = blank_state();
        st.last_access = any_access(p);
        st.last_non_load_access = any_access(p);
        let a: u8 = kani::any();
        let b: u8 = kani::any();
        kani::assume(a <= 2 && b <= 2);
        let to = |c: u8| match c { 0 => Action::Load, 1 => Action::Store, _ => Action::Rmw };
        let v: Raw = kani::any();
        let before = access_view(st.last_dependent_access(to(b)));
        st.set_last_access(to(a), p, &vv(v));
        let after = access_view(st.last_dependent_access(to(b)));
        if a == 0 && b == 0 {
            assert!(after == before);
        } else {
            assert!(after == Some((p, v)));
        }
        kani::cover!(a == 0 && b == 0 && before.is_some(), "load after load keeps the older store as dependent access");
        kani::cover!(a == 0 && b == 1, "store after load");
    }
}

// ---- helpers for the DPOR-rule harness in execution::verif

pub(crate) fn action(k: u8) -> Action {
    match k {
        0 => Action::Load,
        1 => Action::Store,
        _ => Action::Rmw,
    }
}

pub(crate) fn state_with_accesses(last: Option<(usize, Raw)>, last_non_load: Option<(usize, Raw)>) -> State {
    let mut st = blank_state();
    st.cnt = 1;
    st.last_access = last.map(|(p, c)| Access::new(p, &vv(c)));
    st.last_non_load_access = last_non_load.map(|(p, c)| Access::new(p, &vv(c)));
    st
}

pub(crate) fn accesses(st: &State) -> (Option<(usize, Raw)>, Option<(usize, Raw)>) {
    (
        st.last_access.as_ref().map(|a| (a.path_id(), vv_raw(a.version()))),
        st.last_non_load_access.as_ref().map(|a| (a.path_id(), vv_raw(a.version()))),
    )
}
