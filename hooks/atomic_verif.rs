// harnesses for atomic (included into loom under cfg(loom_verif))
