// harnesses for synchronize (included into loom under cfg(loom_verif))
