// crate::rt::synchronize::verif -- view transfer lemmas (C02: no extra
// happens-before; C03/C04: no missing happens-before).
#![allow(dead_code, unused_imports)]

use super::*;
use crate::rt::thread::verif as tv;
use crate::rt::verif::{le, max_raw, vharness, vv, vv_raw};
#[cfg(not(kani))]
use crate::rt::verif::kani_shim as kani;
use crate::rt::MAX_THREADS;

pub(crate) fn mk(raw: [u16; MAX_THREADS]) -> Synchronize {
    Synchronize { happens_before: vv(raw) }
}

pub(crate) fn raw(s: &Synchronize) -> [u16; MAX_THREADS] {
    vv_raw(&s.happens_before)
}

/// 0 Relaxed, 1 Release, 2 Acquire, 3 AcqRel, 4 SeqCst
pub(crate) fn ordering(code: u8) -> Ordering {
    match code {
        0 => Relaxed,
        1 => Release,
        2 => Acquire,
        3 => AcqRel,
        _ => SeqCst,
    }
}

fn load_case(active: usize) {
    let mut set = tv::mk_set(3);
    tv::activate(&mut set, active);
    tv::havoc_clocks(&mut set, 3);
    let seq: [u16; MAX_THREADS] = kani::any();
    set.seq_cst_causality = vv(seq);
    let cell: [u16; MAX_THREADS] = kani::any();
    let code: u8 = kani::any();
    kani::assume(code <= 4);
    let before_c = [vv_raw(&tv::th_ref(&set, 0).causality), vv_raw(&tv::th_ref(&set, 1).causality), vv_raw(&tv::th_ref(&set, 2).causality)];
    let before_r = [vv_raw(&tv::th_ref(&set, 0).released), vv_raw(&tv::th_ref(&set, 1).released), vv_raw(&tv::th_ref(&set, 2).released)];
    let mut s = mk(cell);
    s.sync_load(&mut set, ordering(code));
    // the cell itself never changes on a load
    assert!(raw(&s) == cell);
    // reference: acquire-class orderings (Acquire, AcqRel, SeqCst) join the
    // cell into the reader; Relaxed / Release transfer nothing
    let acquires = code >= 2;
    let mut t = 0;
    while t < 3 {
        let c = vv_raw(&tv::th_ref(&set, t).causality);
        if t == active && acquires {
            assert!(c == max_raw(&before_c[t], &cell));
        } else {
            assert!(c == before_c[t]);
        }
        assert!(vv_raw(&tv::th_ref(&set, t).released) == before_r[t]);
        t += 1;
    }
    // SeqCst accesses behave as acquire/release only (README): the global
    // SC-fence view is untouched
    assert!(vv_raw(&set.seq_cst_causality) == seq);
    kani::cover!(acquires && !le(&cell, &before_c[active]), "acquire learns something");
    kani::cover!(!acquires && !le(&cell, &before_c[active]), "relaxed load of a newer view");
    std::mem::forget(set);
}

fn store_case(active: usize) {
    let mut set = tv::mk_set(3);
    tv::activate(&mut set, active);
    tv::havoc_clocks(&mut set, 3);
    let seq: [u16; MAX_THREADS] = kani::any();
    set.seq_cst_causality = vv(seq);
    let cell: [u16; MAX_THREADS] = kani::any();
    let code: u8 = kani::any();
    kani::assume(code <= 4);
    let cur = vv_raw(&tv::th_ref(&set, active).causality);
    let rel = vv_raw(&tv::th_ref(&set, active).released);
    let before_c = [vv_raw(&tv::th_ref(&set, 0).causality), vv_raw(&tv::th_ref(&set, 1).causality), vv_raw(&tv::th_ref(&set, 2).causality)];
    let mut s = mk(cell);
    s.sync_store(&mut set, ordering(code));
    // reference: every store carries the writer's last release-fence view;
    // release-class orderings (Release, AcqRel, SeqCst) carry its full view
    let releases = code == 1 || code >= 3;
    let expect = if releases { max_raw(&max_raw(&cell, &rel), &cur) } else { max_raw(&cell, &rel) };
    assert!(raw(&s) == expect);
    // a store never changes any thread's own view
    let mut t = 0;
    while t < 3 {
        assert!(vv_raw(&tv::th_ref(&set, t).causality) == before_c[t]);
        t += 1;
    }
    assert!(vv_raw(&tv::th_ref(&set, active).released) == rel);
    assert!(vv_raw(&set.seq_cst_causality) == seq);
    kani::cover!(releases && !le(&cur, &cell), "release publishes something");
    kani::cover!(!releases && !le(&cur, &max_raw(&cell, &rel)), "relaxed store keeps the writer's newer view private");
    kani::cover!(code == 2 && !le(&rel, &cell), "acquire-ordered store still carries the release-fence view");
    std::mem::forget(set);
}

vharness! {
    /// @prop C02,C03,C04 @tier quick @mode full @funcs Synchronize::sync_load,Synchronize::sync_acq,Set::seq_cst @bounds all clocks of 3 threads + cell + SC view (all u16 values), all 5 orderings, active thread 0
    /// sync_load joins the cell into the reader exactly for Acquire/AcqRel/SeqCst and changes nothing else (no other thread, not `released`, not the SC-fence view).
    fn sync_load_exact_t0() { load_case(0) }
}

vharness! {
    /// @prop C02,C03,C04 @tier quick @mode full @funcs Synchronize::sync_load @bounds as sync_load_exact_t0, active thread 2
    /// sync_load lemma for a non-initial active thread.
    fn sync_load_exact_t2() { load_case(2) }
}

vharness! {
    /// @prop C02,C03,C04 @tier quick @mode full @funcs Synchronize::sync_store,Synchronize::sync_rel,Set::seq_cst @bounds all clocks of 3 threads + cell + SC view, all 5 orderings, active thread 0
    /// sync_store adds exactly the release-fence view (always) and the full view (Release/AcqRel/SeqCst) to the cell and changes no thread.
    fn sync_store_exact_t0() { store_case(0) }
}

vharness! {
    /// @prop C02,C03,C04 @tier quick @mode full @funcs Synchronize::sync_store @bounds as sync_store_exact_t0, active thread 1
    /// sync_store lemma for a non-initial active thread.
    fn sync_store_exact_t1() { store_case(1) }
}
