// crate::rt::notify::verif -- C08 (notify machine), C01-O4.
#![allow(dead_code, unused_imports)]

use super::*;
use crate::rt::verif::{le, max_raw, vharness, vv, vv_raw};
#[cfg(not(kani))]
use crate::rt::verif::kani_shim as kani;
use crate::rt::MAX_THREADS;

pub(crate) fn dependence(p: usize, v: [u16; MAX_THREADS]) {
    let mut s = State { spurious: false, did_spur: false, seq_cst: false, notified: false, last_access: None, synchronize: Synchronize::new() };
    if kani::any() {
        let q: usize = kani::any();
        s.last_access = Some(Access::new(q, &vv(kani::any())));
    }
    s.set_last_access(p, &vv(v));
    let a = s.last_dependent_access().unwrap();
    assert!(a.path_id() == p && vv_raw(a.version()) == v);
}

// ------------------------------------------------------------ C08: one-step simulation of Notify and park

use crate::rt::execution::verif as ev;
use crate::rt::object::verif as ov;
use crate::rt::scheduler::verif as sched;
use crate::rt::synchronize::verif as sv;
use crate::rt::thread::verif as tv;

type Raw = [u16; MAX_THREADS];

fn eq(a: &Raw, b: &Raw) -> bool {
    le(a, b) && le(b, a)
}

/// World: 3 threads, one Notify (object 0).  Non-acting threads are symbolic:
/// role 0 unrelated runnable, 1 blocked elsewhere, 2 waiting on this Notify
/// (pending operation on it, Blocked -- no notification stored).
fn world(acting: usize, notified: bool, spurious: bool, did_spur: bool) -> (crate::rt::Execution, Notify, [u8; 3], Raw) {
    // one decision per operation, plus the spurious-wakeup decision when it can be taken
    let cap = if spurious && !did_spur { 2 } else { 1 };
    let mut e = ev::mk_exec(3, cap, None);
    tv::activate(&mut e.threads, acting);
    let sync: Raw = kani::any();
    let st = State { spurious, did_spur, seq_cst: kani::any(), notified, last_access: None, synchronize: sv::mk(sync) };
    let r = e.objects.insert(st);
    let mut roles = [0u8; 3];
    let mut t = 0;
    while t < 3 {
        let c: Raw = kani::any();
        tv::th(&mut e.threads, t).causality = vv(c);
        if t != acting {
            let role: u8 = kani::any();
            kani::assume(role <= 2);
            if notified {
                // a stored notification means nobody is blocked waiting for it
                kani::assume(role != 2);
            }
            roles[t] = role;
            let (code, opn) = match role {
                0 => (0, None),
                1 => (2, None),
                _ => (2, Some(ov::op(0, crate::rt::object::Action::Opaque))),
            };
            tv::th(&mut e.threads, t).state = tv::state_from_code(code);
            tv::th(&mut e.threads, t).operation = opn;
        }
        t += 1;
    }
    (e, Notify { state: r }, roles, sync)
}

fn code_of(e: &crate::rt::Execution, t: usize) -> u8 {
    tv::state_code(&tv::th_ref(&e.threads, t).state)
}

fn clock(e: &crate::rt::Execution, t: usize) -> Raw {
    vv_raw(&tv::th_ref(&e.threads, t).causality)
}

vharness! {
    /// @prop C08,C05 @tier thorough @mode fast @cost 2 @funcs Notify::notify,Ref::branch_opaque,Synchronize::sync_store,Thread::unpark,Set::split_active @bounds 3 threads, 1 Notify without stored notification, other threads symbolic (unrelated / blocked elsewhere / waiting on it), all clock values, notifier = thread 1
    /// notify: the notification is stored, the notifier's view is released into the Notify, every thread blocked in wait() on it becomes runnable and inherits the notifier's view; threads blocked elsewhere stay blocked.
    #[cfg_attr(kani, kani::unwind(8))]
    fn notify_wakes_waiters_t1() {
        let acting = 1;
        let (mut e, n, roles, sync) = world(acting, false, false, false);
        let c = [clock(&e, 0), clock(&e, 1), clock(&e, 2)];
        sched::enter(&mut e, || n.notify(Location::disabled()));
        let st = n.state.get(&e.objects);
        assert!(st.notified);
        assert!(eq(&sv::raw(&st.synchronize), &max_raw(&sync, &c[acting])));
        assert!(eq(&clock(&e, acting), &c[acting]));
        let mut t = 0;
        while t < 3 {
            if t != acting {
                match roles[t] {
                    2 => {
                        assert!(code_of(&e, t) == 0);
                        assert!(eq(&clock(&e, t), &max_raw(&c[t], &c[acting])));
                    }
                    1 => {
                        assert!(code_of(&e, t) == 2);
                        assert!(eq(&clock(&e, t), &c[t]));
                    }
                    _ => {
                        assert!(code_of(&e, t) == 0);
                        assert!(eq(&clock(&e, t), &c[t]));
                    }
                }
            }
            t += 1;
        }
        assert!(sched::switches() == 0);
        kani::cover!(roles[0] == 2 && roles[2] == 2, "two waiters");
        kani::cover!(roles[0] == 2 && roles[2] == 1, "one waiter, one thread blocked elsewhere");
        std::mem::forget(e);
    }
}

fn wait_stored_case(spurious: bool, did: bool) {
    let acting = 0;
    let (mut e, n, _roles, sync) = world(acting, true, spurious, did);
    let c = [clock(&e, 0), clock(&e, 1), clock(&e, 2)];
    sched::enter(&mut e, || n.wait(Location::disabled()));
    let st = n.state.get(&e.objects);
    assert!(!st.notified);
    assert!(st.did_spur == did);
    assert!(eq(&clock(&e, acting), &max_raw(&c[acting], &sync)));
    assert!(eq(&clock(&e, 1), &c[1]) && eq(&clock(&e, 2), &c[2]));
    assert!(sched::switches() == 0);
    assert!(code_of(&e, acting) == 0);
    kani::cover!(!le(&sync, &c[acting]), "the waiter learns the notifier's view");
    std::mem::forget(e);
}

vharness! {
    /// @prop C08 @tier thorough @mode fast @cost 3 @timeout 3600 @funcs Notify::wait,State::might_spur,Ref::branch_opaque,Synchronize::sync_load @bounds 3 threads, Notify with a stored notification, no spurious wake-ups (the JoinHandle configuration), waiter = thread 0
    /// a notification issued before the wait is not lost: wait() on a notified Notify returns without blocking, consumes the notification exactly once and acquires the notifier's view.
    #[cfg_attr(kani, kani::unwind(8))]
    fn notify_wait_consumes_stored_t0() { wait_stored_case(false, false) }
}

vharness! {
    /// @prop C08 @tier experimental @mode fast @cost 3 @timeout 3600 @funcs Notify::wait,Path::branch_spurious @bounds as notify_wait_consumes_stored_t0 with spurious wake-ups enabled and not yet used (the decision point is recorded, first value: not spurious)
    /// wait() with the spurious decision point on its first exploration behaves like a normal wait and leaves the spurious budget untouched.
    #[cfg_attr(kani, kani::unwind(8))]
    fn notify_wait_consumes_stored_spurious_armed() { wait_stored_case(true, false) }
}

vharness! {
    /// @prop C08 @tier thorough @mode fast @cost 4 @timeout 3600 @funcs Notify::wait @bounds as notify_wait_consumes_stored_t0 with the one spurious wake-up already used
    /// after the single modelled spurious return no further spurious decision is taken: the flag stays set (at most one spurious return per Notify).
    #[cfg_attr(kani, kani::unwind(8))]
    fn notify_wait_after_spurious_used() { wait_stored_case(true, true) }
}

vharness! {
    /// @prop C08,C05 @tier thorough @mode fast @cost 2 @funcs Ref::branch_acquire,Execution::schedule @bounds 3 threads, Notify without stored notification and no spurious wake-up left, waiter = thread 2, thread 0 runnable
    /// wait() without a notification blocks: the caller is Blocked with a pending operation on the Notify until notify() (first half of the real wait through the real branch_acquire/schedule).
    #[cfg_attr(kani, kani::unwind(8))]
    fn notify_wait_blocks_t2() {
        let acting = 2;
        let (mut e, n, roles, _sync) = world(acting, false, false, false);
        tv::th(&mut e.threads, 0).state = tv::state_from_code(0);
        tv::th(&mut e.threads, 0).operation = None;
        let (notified, might) = sched::enter(&mut e, || {
            let (a, b) = crate::rt::execution(|ex| {
                let s = n.state.get(&ex.objects);
                (s.notified, s.might_spur())
            });
            if !a {
                n.state.branch_acquire(true, Location::disabled());
            }
            (a, b)
        });
        assert!(!notified && !might);
        assert!(code_of(&e, acting) == 2);
        assert!(sched::switches() == 1);
        let next = tv::active_index(&e.threads);
        assert!(next == Some(0) || (next == Some(1) && roles[1] == 0));
        std::mem::forget(e);
    }
}

vharness! {
    /// @prop C08 @tier experimental @mode fast @cost 2 @funcs Notify::wait,Path::branch_spurious,rt::yield_now,Thread::set_yield @bounds Notify with spurious wake-ups enabled, the spurious decision point replayed with value `true`, waiter = thread 0, thread 1 runnable
    /// the single modelled spurious return: wait() returns without consuming anything, marks the Notify so that no second spurious return is offered, and the waiter yields.
    #[cfg_attr(kani, kani::unwind(8))]
    fn notify_wait_spurious_once_t0() {
        let acting = 0;
        let notified: bool = kani::any();
        let (mut e, n, _roles, sync) = world(acting, notified, true, false);
        tv::th(&mut e.threads, 1).state = tv::state_from_code(0);
        tv::th(&mut e.threads, 1).operation = None;
        // the DFS has advanced the spurious decision of this wait() to `true`
        crate::rt::path::verif::seed_spurious_true(&mut e.path);
        let c0 = clock(&e, 0);
        sched::enter(&mut e, || n.wait(Location::disabled()));
        let st = n.state.get(&e.objects);
        assert!(st.did_spur && !st.might_spur());
        assert!(st.notified == notified);
        assert!(eq(&sv::raw(&st.synchronize), &sync));
        assert!(eq(&clock(&e, 0), &c0));
        // the spuriously woken thread yielded to the runnable one
        assert!(sched::switches() == 1);
        assert!(tv::active_index(&e.threads) == Some(1));
        kani::cover!(notified, "spurious return although a notification is stored");
        std::mem::forget(e);
    }
}

vharness! {
    /// @prop C08,C05 @tier quick @mode fast @cost 2 @funcs rt::park,Thread::set_runnable,Thread::set_blocked,Execution::schedule @bounds 3 threads, parking thread 1 with symbolic park token, thread 0 runnable
    /// park: with a stored token it returns immediately and consumes the token (no context switch); without a token the thread blocks and another runnable thread is scheduled.
    #[cfg_attr(kani, kani::unwind(8))]
    fn park_token_t1() {
        let acting = 1;
        let mut e = ev::mk_exec(3, 1, None);
        tv::activate(&mut e.threads, acting);
        // the parking thread's last scheduling point was an operation on some
        // object (here: a mutex it has released again)
        e.objects.insert(crate::rt::mutex::verif::mk_unlocked());
        tv::th(&mut e.threads, acting).operation = Some(ov::op(0, crate::rt::object::Action::Opaque));
        let token: bool = kani::any();
        tv::th(&mut e.threads, acting).state = tv::state_from_code(if token { 1 } else { 0 });
        let other: u8 = kani::any();
        kani::assume(other == 0 || other == 2);
        tv::th(&mut e.threads, 2).state = tv::state_from_code(other);
        sched::enter(&mut e, || crate::rt::park(Location::disabled()));
        if token {
            assert!(code_of(&e, acting) == 0);
            assert!(sched::switches() == 0);
            assert!(tv::active_index(&e.threads) == Some(acting));
        } else {
            assert!(code_of(&e, acting) == 2);
            assert!(sched::switches() == 1);
            assert!(tv::active_index(&e.threads) == Some(0));
            // a parked thread waits for unpark only: it is no longer queued on
            // whatever object it touched last (else that object's release would wake it)
            assert!(tv::th_ref(&e.threads, acting).operation.is_none());
        }
        assert!(code_of(&e, 2) == other);
        kani::cover!(token, "token consumed");
        kani::cover!(!token, "blocks");
        std::mem::forget(e);
    }
}
