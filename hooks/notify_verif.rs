// harnesses for notify (included into loom under cfg(loom_verif))
