// crate::rt::notify::verif -- C08 (notify machine), C01-O4.
#![allow(dead_code, unused_imports)]

use super::*;
use crate::rt::verif::{le, max_raw, vharness, vv, vv_raw};
#[cfg(not(kani))]
use crate::rt::verif::kani_shim as kani;
use crate::rt::MAX_THREADS;

pub(crate) fn dependence(p: usize, v: [u16; MAX_THREADS]) {
    let mut s = State { spurious: false, did_spur: false, seq_cst: false, notified: false, last_access: None, synchronize: Synchronize::new() };
    if kani::any() {
        let q: usize = kani::any();
        s.last_access = Some(Access::new(q, &vv(kani::any())));
    }
    s.set_last_access(p, &vv(v));
    let a = s.last_dependent_access().unwrap();
    assert!(a.path_id() == p && vv_raw(a.version()) == v);
}
