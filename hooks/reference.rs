// Reference models (oracles), independent of loom's data structures.
#![allow(dead_code)]
