use loom::sync::atomic::{fence, AtomicUsize, Ordering::*};
use loom::thread;
use std::collections::BTreeSet;
use std::sync::{Arc, Mutex};

#[test]
fn acquire_fence_does_not_sync_through_foreign_read() {
    let seen: &'static Mutex<BTreeSet<(usize, usize, usize)>> = Box::leak(Box::new(Mutex::new(BTreeSet::new())));
    loom::model(move || {
        let x = Arc::new(AtomicUsize::new(0));
        let y = Arc::new(AtomicUsize::new(0));
        let z = Arc::new(AtomicUsize::new(0));
        let (x1, y1) = (x.clone(), y.clone());
        let t0 = thread::spawn(move || {
            y1.store(1, Relaxed);
            x1.store(1, Release);
        });
        let (x2, z2) = (x.clone(), z.clone());
        let t1 = thread::spawn(move || {
            let a = x2.load(Relaxed);
            z2.store(1, Release);
            a
        });
        let b = z.load(Acquire);
        fence(Acquire);
        let c = y.load(Relaxed);
        t0.join().unwrap();
        let a = t1.join().unwrap();
        seen.lock().unwrap().insert((a, b, c));
    });
    let s = seen.lock().unwrap().clone();
    println!("outcomes: {:?}", s);
    assert!(s.contains(&(1, 1, 0)), "allowed outcome (1,1,0) never explored: {:?}", s);
}
