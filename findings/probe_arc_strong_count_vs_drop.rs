use loom::sync::Arc;
use loom::thread;
use std::sync::Mutex;
use std::collections::BTreeSet;

#[test]
fn strong_count_vs_drop() {
    let seen: &'static Mutex<BTreeSet<usize>> = Box::leak(Box::new(Mutex::new(BTreeSet::new())));
    loom::model(move || {
        let a = Arc::new(0usize);
        let a2 = a.clone();
        let t = thread::spawn(move || { drop(a2); });
        let c = Arc::strong_count(&a);
        seen.lock().unwrap().insert(c);
        t.join().unwrap();
    });
    let s = seen.lock().unwrap().clone();
    println!("strong_count outcomes: {:?}", s);
    assert!(s.contains(&1) && s.contains(&2), "outcomes {:?}", s);
}
